"""C17 — DIMSE primitives survive conversion to command sets and back; command
field values are those PS3.7 assigns.

Real side: the primitive classes (setters), `primitive_to_message`, `encode_msg`
(fragments concatenated), a fresh `DIMSEMessage().decode_msg`, `message_to_primitive`.
Model side: `Model/Cmd.lean` through the driver (`prim.set`, `prim.enc`, `prim.rt`,
`prim.canon`, `prim.kind`, `cmd.dec`, `cmd.enc`).

Per generated primitive
  (a) correspondence: stored parameter values after the setters, the command-set bytes
      (byte for byte: this is the check of the PS3.5 reading against pydicom), the data-set
      bytes, the decoded message type and every parameter of the decoded primitive must
      equal what the model computes;
  (b) oracle on the implementation alone: the decoded primitive has the same class, the
      same request/response direction, for every parameter of the message type a value equal
      to the original (modulo the documented canonical forms: AE/LO padding spaces, one-tag
      list = bare tag, empty list = absent), parameters that are not part of the message type
      at their defaults, data-set bytes equal, CommandField the PS3.7 value, CommandGroupLength
      the length of the rest.
"""
import logging
import warnings
from io import BytesIO

from translate import cmdset as tr

GEN = [tr.generate]

# PS3.7 E.1 command field values, written here independently of the code and of the Lean spec
PS37_FIELDS = {
    "C-STORE-RQ": 0x0001, "C-STORE-RSP": 0x8001, "C-GET-RQ": 0x0010, "C-GET-RSP": 0x8010,
    "C-FIND-RQ": 0x0020, "C-FIND-RSP": 0x8020, "C-MOVE-RQ": 0x0021, "C-MOVE-RSP": 0x8021,
    "C-ECHO-RQ": 0x0030, "C-ECHO-RSP": 0x8030, "N-EVENT-REPORT-RQ": 0x0100, "N-EVENT-REPORT-RSP": 0x8100,
    "N-GET-RQ": 0x0110, "N-GET-RSP": 0x8110, "N-SET-RQ": 0x0120, "N-SET-RSP": 0x8120,
    "N-ACTION-RQ": 0x0130, "N-ACTION-RSP": 0x8130, "N-CREATE-RQ": 0x0140, "N-CREATE-RSP": 0x8140,
    "N-DELETE-RQ": 0x0150, "N-DELETE-RSP": 0x8150, "C-CANCEL-RQ": 0x0FFF,
}  # fmt: skip

US_BOUNDARY = [0, 1, 2, 255, 256, 257, 0x7FFF, 0x8000, 0xFF00, 0xFFFE, 0xFFFF]
STATUS = [0x0000, 0xFF00, 0xFF01, 0xFE00, 0xA700, 0xA900, 0xB000, 0xB007, 0xC000, 0x0107, 0x0110, 0x0122, 0xFFFF]
TAGS = [0, 1, 0x00100010, 0x00080018, 0x7FE00010, 0xFFFFFFFF, 0xFFFEE000, 0x00000901, 0x0000FFFF, 0x00010000]
UID_CHARS = "0123456789."
PRINTABLE = "".join(chr(c) for c in range(0x20, 0x7F) if c != 0x5C)
LATIN = PRINTABLE + "".join(chr(c) for c in range(0xA0, 0x100))


# --------------------------------------------------------------------------
# environment: the real tables
# --------------------------------------------------------------------------
class Env:
    def __init__(self):
        from pydicom.datadict import dictionary_VR, tag_for_keyword
        from pynetdicom import dimse, dimse_messages as dm

        self.dm = dm
        self.dimse = dimse
        self.rows = {}
        dict_kw = set()
        for name, words in dm._COMMAND_SET_KEYWORDS.items():
            dict_kw |= set(words)
        self.kw_tag = {w: int(tag_for_keyword(w)) for w in dict_kw}
        self.tag_kw = {t: w for w, t in self.kw_tag.items()}
        self.kw_vr = {w: dictionary_VR(tag_for_keyword(w)) for w in dict_kw}
        self.ds_params = sorted(set(dm._DATASET_KEYWORDS.values()))
        for name, words in dm._COMMAND_SET_KEYWORDS.items():
            cname = name.replace("-", "_")
            mcls = getattr(dm, cname)
            pcls = dm._MSG_TO_PRIMITIVE[cname[: cname.rfind("_R")]]
            fresh = pcls()
            attrs = [w for w in sorted(dict_kw, key=self.kw_tag.get) if hasattr(fresh, w)]
            self.rows[name] = dict(
                name=name,
                mcls=mcls,
                pcls=pcls,
                keywords=[w for w in words if w in attrs],
                attrs=attrs,
                ds_kw=dm._DATASET_KEYWORDS.get(cname),
                ds_attrs=[d for d in self.ds_params if hasattr(fresh, d)],
            )
        self.names = sorted(self.rows)


def quiet():
    logging.disable(logging.CRITICAL)
    warnings.simplefilter("ignore")


# --------------------------------------------------------------------------
# value conversion
# --------------------------------------------------------------------------
def to_val(v):
    """stored Python value -> model value (sexp); 'other' when outside the modelled types"""
    if type(v) is tuple and len(v) == 2 and all(isinstance(x, int) and not isinstance(x, bool) and 0 <= x < 65536 for x in v):
        # a (group, element) pair is pydicom's other spelling of ONE tag (what `Tag((g, e))` means)
        return ["int", (v[0] << 16) | v[1]]
    t = tr.to_val(v)
    if t is None:
        return "none"
    k, x = t
    if k == "int":
        return ["int", x]
    if k == "str":
        return ["str", x]
    if k == "list":
        return ["list", *x]
    return ["other", repr(v)]


def raw_of(j):
    """JSON raw value -> Python"""
    if isinstance(j, dict):
        return tuple(j["t"]) if "t" in j else j["s"]
    return j


def raw_json(v):
    if isinstance(v, str):
        return {"s": v}
    if isinstance(v, tuple):
        return {"t": list(v)}
    return v


# --------------------------------------------------------------------------
# generators
# --------------------------------------------------------------------------
def g_us(rng):
    return rng.choice(US_BOUNDARY) if rng.random() < 0.5 else rng.randrange(65536)


def g_uid(rng):
    r = rng.random()
    n = rng.choice([1, 2, 3, 63, 64]) if r < 0.4 else rng.randrange(1, 65)
    if rng.random() < 0.85:
        s = "".join(rng.choice(UID_CHARS) for _ in range(n))
        if s.strip(".") == "":
            s = "1" + s[1:]
    else:  # non-conformant but accepted characters (ENFORCE_UID_CONFORMANCE is off)
        s = "".join(rng.choice(PRINTABLE) for _ in range(n))
    r = rng.random()
    if r < 0.08:
        s = (" " + s)[:64] if rng.random() < 0.5 else " " + s + "  "
    elif r < 0.11:
        s = ""
    return s


def g_ae(rng, allow_empty):
    n = rng.choice([1, 2, 15, 16]) if rng.random() < 0.4 else rng.randrange(1, 17)
    r = rng.random()
    if r < 0.6:
        core = "".join(rng.choice("ABCDEFGHIJKLMNOPQRSTUVWXYZ0123456789_-") for _ in range(n))
    else:
        core = "".join(rng.choice(PRINTABLE) for _ in range(n))
    r = rng.random()
    if r < 0.25:  # padding spaces inside the 16 characters
        k = rng.randrange(0, 4)
        core = (" " * k + core + " " * rng.randrange(0, 4))[:16]
    if allow_empty and rng.random() < 0.08:
        core = rng.choice(["", " ", "    ", "A" * 17, "AB\\C"])
    if not allow_empty and core.strip() == "":
        core = "A"
    return core


def g_lo(rng):
    r = rng.random()
    n = rng.choice([0, 1, 2, 63, 64, 65]) if r < 0.4 else rng.randrange(0, 130)
    alphabet = PRINTABLE if rng.random() < 0.8 else LATIN
    s = "".join(rng.choice(alphabet) for _ in range(n))
    r = rng.random()
    if r < 0.15:
        s = " " * rng.randrange(1, 3) + s
    if 0.1 < r < 0.3:
        s = s + " " * rng.randrange(1, 4)
    return s


def g_tag(rng):
    return rng.choice(TAGS) if rng.random() < 0.5 else rng.randrange(2**32)


def g_at(rng):
    r = rng.random()
    if r < 0.10:
        t = g_tag(rng)
        return (t >> 16, t & 0xFFFF)  # one tag, written as a (group, element) pair
    if r < 0.25:
        return g_tag(rng)
    n = rng.choice([0, 1, 2, 5]) if r < 0.9 else rng.randrange(0, 40)
    return [g_tag(rng) for _ in range(n)]


def g_data(rng):
    r = rng.random()
    if r < 0.15:
        return None
    if r < 0.25:
        return b""
    n = rng.choice([1, 2, 3, 7, 8]) if r < 0.5 else rng.randrange(1, 400)
    return bytes(rng.randrange(256) for _ in range(n))


def g_param(rng, kw, vr):
    if kw == "Priority":
        return rng.choice([0, 1, 2])
    if kw == "Status":
        return rng.choice(STATUS) if rng.random() < 0.6 else rng.randrange(65536)
    if vr == "US":
        return g_us(rng)
    if vr == "UI":
        return g_uid(rng)
    if vr == "AE":
        return g_ae(rng, allow_empty=(kw != "MoveDestination"))
    if vr == "LO":
        return g_lo(rng)
    if vr == "AT":
        v = g_at(rng)
        if isinstance(v, tuple) and kw != "OffendingElement":
            # N_GET.AttributeIdentifierList has a setter that reads any sequence as a list of tags: the pair spelling
            # is only unambiguous for the plain (0000,0901) Offending Element parameter
            v = (v[0] << 16) | v[1]
        return v
    raise KeyError(kw)


def typical(kw, vr):
    if kw == "Priority":
        return 1
    if vr == "US":
        return 0x0102
    if vr == "UI":
        return "1.2.840.10008.5.1.4.1.1.2"
    if vr == "AE":
        return "STORE_SCP"
    if vr == "LO":
        return "Some comment"
    if vr == "AT":
        return [0x00100010, 0x00100020]
    raise KeyError(kw)


def gen_case(env, rng, name=None, subset=None):
    row = env.rows[name or rng.choice(env.names)]
    raws = []
    mode = rng.random()
    for kw in row["attrs"]:
        in_msg = kw in row["keywords"]
        if subset is not None:
            present = kw in subset
        elif mode < 0.05:
            present = False
        elif mode < 0.15:
            present = in_msg
        else:
            present = rng.random() < (0.65 if in_msg else 0.12)
        if not present:
            if kw == "Priority" or rng.random() > 0.05:
                continue
            raws.append([kw, None])  # explicit None
            continue
        v = typical(kw, env.kw_vr[kw]) if subset is not None and rng.random() < 0.5 else g_param(rng, kw, env.kw_vr[kw])
        raws.append([kw, raw_json(v)])
    data, ds_attr = None, None
    if row["ds_attrs"]:
        ds_attr = row["ds_kw"] or rng.choice(row["ds_attrs"])
        data = g_data(rng)
    r = rng.random()
    maxpdu = 0 if r < 0.3 else rng.choice([7, 8, 16, 17, 64, 128, 16382, 16384]) if r < 0.8 else rng.randrange(7, 300)
    return dict(row=row["name"], raw=raws, data=None if data is None else data.hex(), ds_attr=ds_attr, maxpdu=maxpdu)


def gen_outside(env, rng):
    """values the setters accept that are outside the VR's range/repertoire"""
    name = rng.choice(env.names)
    row = env.rows[name]
    c = gen_case(env, rng, name)
    cands = [kw for kw in row["keywords"] if kw not in ("Priority",)]
    if not cands:
        return None
    kw = rng.choice(cands)
    vr = env.kw_vr[kw]
    if vr == "US":
        v = rng.choice([65536, 65537, 70000, 2**31, 2**32])
    elif vr in ("UI", "LO"):
        a, b = "".join(rng.choice(UID_CHARS) for _ in range(rng.randrange(1, 6))), "".join(
            rng.choice(UID_CHARS) for _ in range(rng.randrange(0, 6))
        )
        v = ("1" + a + "\\" + b) if rng.random() < 0.8 else ("1" + a + "\\" + b + "\\" + a)
    elif vr == "AT":
        v = rng.choice([2**32, [1, 2**32], [2**32 + 5]])
    else:
        return None
    c["raw"] = [r for r in c["raw"] if r[0] != kw] + [[kw, raw_json(v)]]
    c["outside"] = kw
    return c


# --------------------------------------------------------------------------
# executing one case on the real code
# --------------------------------------------------------------------------
def real_run(env, case):
    """-> dict with the observations; never raises for a failure of the code under test"""
    row = env.rows[case["row"]]
    out = {"stage": "ok"}
    prim = row["pcls"]()
    setter_obs = []
    for kw, j in case["raw"]:
        try:
            setattr(prim, kw, raw_of(j))
            setter_obs.append([kw, ["ok", to_val(getattr(prim, kw))]])
        except Exception as e:
            setter_obs.append([kw, "raise"])
            out["setter_exc"] = repr(e)[:120]
    out["setters"] = setter_obs
    data = None if case["data"] is None else bytes.fromhex(case["data"])
    if case["ds_attr"]:
        from harness.dimse_common import stream_of

        setattr(prim, case["ds_attr"], None if data is None else stream_of(data, len(case["raw"])))
    out["stored"] = {kw: to_val(getattr(prim, kw)) for kw in row["attrs"]}
    out["prim"] = prim
    if any(v[0] == "other" for v in out["stored"].values() if isinstance(v, list)):
        out["stage"] = "unmodelled-value"
        return out
    try:
        send = (env.dimse._RQ_TO_MESSAGE if prim.MessageIDBeingRespondedTo is None else env.dimse._RSP_TO_MESSAGE)[row["pcls"]]
        out["send_kind"] = env.dm._MESSAGE_TYPES[{v[1]: k for k, v in env.dm._MESSAGE_TYPES.items()}[send]][0]
    except KeyError:
        out["send_kind"] = "none"
    msg = row["mcls"]()
    try:
        msg.primitive_to_message(prim)
        frags = list(msg.encode_msg(1, case["maxpdu"]))
    except Exception as e:
        out["stage"] = "enc-raise"
        out["exc"] = repr(e)[:160]
        return out
    cmd, ds, heads = b"", b"", []
    for f in frags:
        for cid, pdv in f.presentation_data_value_list:
            heads.append(pdv[0])
            if pdv[0] & 1:
                cmd += pdv[1:]
            else:
                ds += pdv[1:]
    out["cmd"], out["ds"], out["heads"], out["frags"] = cmd, ds, heads, frags
    out["elements"] = {int(e.tag): e.value for e in msg.command_set}
    m2 = env.dm.DIMSEMessage()
    done = []
    try:
        for f in frags:
            done.append(m2.decode_msg(f))
        q = m2.message_to_primitive()
    except Exception as e:
        out["stage"] = "dec-raise"
        out["exc"] = repr(e)[:160]
        return out
    out["done"] = done
    out["mtype"] = type(m2).__name__
    out["q"] = q
    out["decoded"] = {kw: to_val(getattr(q, kw)) for kw in row["attrs"]}
    d = getattr(q, "_dataset", None)
    out["decoded_data"] = None if d is None else d.getvalue()
    out["ctx"] = getattr(q, "_context_id", None)
    return out


def model_prim(env, row, stored, data):
    pars = [[env.kw_tag[kw], v] for kw, v in stored.items() if v != "none"]
    return [pars, None if data is None else data]


def decoded_model_form(env, row, obs):
    pars = sorted([env.kw_tag[kw], v] for kw, v in obs["decoded"].items() if v != "none")
    return ["ok", obs["mtype"].replace("_", "-"), pars, "none" if obs["decoded_data"] is None else obs["decoded_data"]]


def norm(x):
    """model reply -> comparable (None -> 'none', tuples -> lists)"""
    if x is None:
        return "none"
    if isinstance(x, (list, tuple)):
        return [norm(y) for y in x]
    return x


# --------------------------------------------------------------------------
# the property oracle, on the implementation's own outputs
# --------------------------------------------------------------------------
def py_canon(vr, v):
    """the value a parameter is expected to have after the trip (written from PS3.5/the docs)"""
    if v == "none":
        return "none"
    k = v[0]
    if k == "int":
        return v
    if k == "str":
        s = v[1]
        if vr == "AE":
            return ["str", s.strip(b" ")]  # leading/trailing spaces are not significant
        if vr == "LO":
            return ["str", s.rstrip(b" ")]  # trailing padding is not significant
        return v
    if k == "list":
        ts = v[1:]
        if len(ts) == 0:
            return "none"  # an empty list is "no value"
        if len(ts) == 1:
            return ["int", ts[0]]  # a one-element list is the bare tag
        return v
    return v


def canon_raw(kw, vr, raw):
    """what a parameter set to the in-range raw value `raw` must read after the trip, written
    from the documentation of the primitives (UIDs stripped, '' = absent; an invalid Move
    Originator AE title is dropped; AE/LO padding; one-tag list = the tag; empty list = absent)"""
    if raw is None:
        return ["int", 2] if kw == "Priority" else "none"
    if vr == "US":
        return ["int", raw]
    if vr == "UI":
        s = raw.strip()
        return ["str", s.encode("latin-1")] if s else "none"
    if vr == "AE":
        valid = len(raw) <= 16 and all(0x20 <= ord(c) <= 0x7E and c != "\\" for c in raw)
        if not valid:
            return "none"
        return ["str", raw.strip(" ").encode("latin-1")]
    if vr == "LO":
        return ["str", raw.rstrip(" ").encode("latin-1")]
    if vr == "AT":
        if isinstance(raw, int):
            return ["int", raw]
        if isinstance(raw, tuple):
            return ["int", (raw[0] << 16) | raw[1]]
        if len(raw) == 0:
            return "none"
        if len(raw) == 1:
            return ["int", raw[0]]
        return ["list", *raw]
    raise KeyError(kw)


def oracle(env, case, obs):
    """list of (sig, what) property failures of the implementation for an in-range case"""
    row = env.rows[case["row"]]
    name = row["name"]
    bad = []
    for kw, res in obs["setters"]:
        if res == "raise":
            bad.append((f"setter-rejects:{row['pcls'].__name__}:{kw}", f"{row['pcls'].__name__}.{kw} = {raw_of(dict(case['raw'])[kw])!r} raises {obs.get('setter_exc')}"))
    if bad:
        return bad
    if obs["stage"] != "ok":
        return [(f"roundtrip-raises:{name}:{obs['stage']}", f"{name}: conversion raised at {obs['stage']}: {obs.get('exc')}")]
    q, prim = obs["q"], obs["prim"]
    if type(q) is not row["pcls"]:
        bad.append((f"type:{name}", f"{name}: decoded primitive is {type(q).__name__}, sent {row['pcls'].__name__}"))
    if obs["mtype"].replace("_", "-") != name:
        bad.append((f"msgtype:{name}", f"{name}: decoded message class is {obs['mtype']}"))
    if obs["send_kind"] == name:  # the message type send_msg would have chosen: direction must survive
        if (q.MessageIDBeingRespondedTo is None) != (prim.MessageIDBeingRespondedTo is None):
            bad.append((f"direction:{name}", f"{name}: request/response direction changed"))
    el = obs["elements"]
    if el.get(0x00000100) != PS37_FIELDS[name]:
        bad.append((f"command-field:{name}", f"{name}: CommandField {el.get(0x100)!r}, PS3.7 says {PS37_FIELDS[name]:#06x}"))
    if el.get(0) != len(obs["cmd"]) - 12:
        bad.append((f"group-length:{name}", f"{name}: CommandGroupLength {el.get(0)!r} but {len(obs['cmd']) - 12} bytes follow"))
    data = None if case["data"] is None else bytes.fromhex(case["data"])
    want_type = 1 if (row["ds_kw"] and data) else 0x0101
    if el.get(0x00000800) != want_type:
        bad.append((f"dataset-type:{name}", f"{name}: CommandDataSetType {el.get(0x800)!r}, expected {want_type:#06x}"))
    for kw in row["attrs"]:
        got = obs["decoded"][kw]
        if kw in row["keywords"]:
            exp = py_canon(env.kw_vr[kw], obs["stored"][kw])
        else:
            exp = ["int", 2] if kw == "Priority" else "none"
        if got != exp:
            cls = "param" if kw in row["keywords"] else "foreign-param"
            bad.append((f"{cls}:{name}:{kw}", f"{name}.{kw}: sent {obs['stored'][kw]!r}, came back {got!r}"))
    for kw, j in case["raw"]:
        if kw in row["keywords"]:
            exp = canon_raw(kw, env.kw_vr[kw], raw_of(j))
            if obs["decoded"][kw] != exp:
                bad.append((f"raw-param:{name}:{kw}", f"{name}.{kw} set to {raw_of(j)!r} came back {obs['decoded'][kw]!r}, expected {exp!r}"))
    if row["ds_kw"]:
        if (obs["decoded_data"] or b"") != (data or b"") or obs["ds"] != (data or b""):
            bad.append((f"dataset:{name}", f"{name}: data set bytes differ after the trip"))
    else:
        if obs["decoded_data"] is not None or obs["ds"]:
            bad.append((f"dataset-leak:{name}", f"{name}: a data set travelled with a message type that has none"))
    heads = obs["heads"]
    ncmd = sum(1 for h in heads if h & 1)
    ok_heads = (
        all(h == 1 for h in heads[: ncmd - 1])
        and heads[ncmd - 1] == 3
        and all(h == 0 for h in heads[ncmd:-1])
        and (len(heads) == ncmd or heads[-1] == 2)
    )
    if not ok_heads or obs["done"] != [False] * (len(heads) - 1) + [True]:
        bad.append((f"framing:{name}", f"{name}: control headers {heads} / decode_msg results {obs['done']}"))
    return bad


# --------------------------------------------------------------------------
# one batch: real vs model vs oracle
# --------------------------------------------------------------------------
def check_batch(ctx, env, cases, kind, in_range=True, use_model=True):
    obs_list = [real_run(env, c) for c in cases]
    reqs, index = [], []
    if use_model:
        for i, (c, o) in enumerate(zip(cases, obs_list)):
            row = env.rows[c["row"]]
            for kw, j in c["raw"]:
                raw = to_val(raw_of(j))
                if raw != "none" and raw[0] == "other":
                    continue
                if kw == "AttributeIdentifierList" and raw != "none" and raw[0] == "str":
                    continue
                reqs.append(["prim.set", row["pcls"].__name__, env.kw_tag[kw], raw])
                index.append((i, "set", kw))
            if o["stage"] == "unmodelled-value":
                continue
            data = None if c["data"] is None or not c["ds_attr"] else bytes.fromhex(c["data"])
            mp = model_prim(env, row, o["stored"], data)
            reqs.append(["prim.enc", row["name"], *mp])
            index.append((i, "enc", None))
            reqs.append(["prim.rt", row["name"], *mp])
            index.append((i, "rt", None))
            reqs.append(["prim.canon", row["name"], *mp])
            index.append((i, "canon", None))
            reqs.append(["prim.kind", row["pcls"].__name__, mp[0]])
            index.append((i, "kind", None))
        replies = ctx.lean(reqs)
    else:
        replies = []
    model = [dict() for _ in cases]
    for (i, what, kw), r in zip(index, replies):
        if what == "set":
            model[i].setdefault("set", {})[kw] = norm(r)
        else:
            model[i][what] = norm(r)
    for c, o, m in zip(cases, obs_list, model):
        row = env.rows[c["row"]]
        nontrivial = o["stage"] == "ok" and len([1 for kw in row["keywords"] if o["stored"][kw] != "none"]) >= 1
        ctx.case(c, nontrivial=nontrivial, kind=f"{kind}:{c['row']}" if kind == "gen" else kind)
        if use_model:
            # setters, one by one (the last write of a keyword wins; cases write each keyword once)
            real_set = dict((kw, v) for kw, v in o["setters"])
            for kw, mv in m.get("set", {}).items():
                rv = real_set[kw]
                rv = "raise" if rv == "raise" else ["ok", rv[1]]
                if norm(rv) != mv:
                    ctx.diff(c, {"setter": kw, "real": rv}, mv, "setter model differs")
            if o["stage"] != "unmodelled-value":
                if o["send_kind"] != m.get("kind"):
                    ctx.diff(c, o["send_kind"], m.get("kind"), "send_msg message type selection differs")
                if o["stage"] == "enc-raise":
                    if m.get("enc") != "raise":
                        ctx.diff(c, "raise: " + o.get("exc", ""), m.get("enc"), "encode: implementation raises, model does not")
                else:
                    if m.get("enc") != ["ok", o["cmd"], o["ds"]]:
                        ctx.diff(c, ["ok", o["cmd"], o["ds"]], m.get("enc"), "command set / data set bytes differ")
                    if o["stage"] == "dec-raise":
                        if m.get("rt") != "raise-dec":
                            ctx.diff(c, "raise-dec: " + o.get("exc", ""), m.get("rt"), "decode: implementation raises, model does not")
                    else:
                        dm_ = decoded_model_form(env, row, o)
                        if norm(dm_) != m.get("rt"):
                            ctx.diff(c, dm_, m.get("rt"), "decoded primitive differs from the model")
                        if in_range and m.get("rt") and m["rt"][0] == "ok" and m["rt"][2:] != m.get("canon"):
                            ctx.diff(c, m["rt"], m.get("canon"), "model: round trip is not canon (InRange violated by the generator?)")
        if o["stage"] == "unmodelled-value":
            continue
        if in_range:
            for sig, what in oracle(env, c, o):
                ctx.fail(sig, what, c)
        else:
            # outside the range of the VR: the conversion may refuse (raise) but must not
            # silently deliver a different value
            if o["stage"] == "ok":
                kw = c.get("outside")
                got, sent = o["decoded"].get(kw), py_canon(env.kw_vr[kw], o["stored"][kw])
                if kw in row["keywords"] and got != sent:
                    vr = env.kw_vr[kw]
                    ctx.fail(
                        f"accepted-value-silently-changed:{vr}",
                        f"{c['row']}.{kw} = {raw_of(dict(c['raw'])[kw])!r} is accepted by the primitive and by "
                        f"primitive_to_message but comes back as {got!r}",
                        c,
                    )


# --------------------------------------------------------------------------
# the captured encodings of the test-suite as a sanity corpus
# --------------------------------------------------------------------------
def ev_of(elem):
    v, vr = elem.value, elem.VR
    if vr in ("UL", "US", "AT"):
        if v is None or (isinstance(v, str) and v == ""):
            return ["nums"]
        if isinstance(v, int):
            return ["nums", int(v)]
        return ["nums", *[int(x) for x in v]]
    if v is None or (isinstance(v, str) and v == ""):
        return ["strs"]
    if isinstance(v, str):
        return ["strs", str(v).encode("latin-1")]
    return ["strs", *[str(x).encode("latin-1") for x in v]]


def corpus(ctx, env):
    import importlib.util
    import os

    from pynetdicom.dsutils import decode, encode
    from pynetdicom.pdu_primitives import P_DATA

    from harness.common import REPO

    blobs = {}
    for fn in ("encoded_dimse_msg.py", "encoded_dimse_n_msg.py"):
        path = os.path.join(REPO, "pynetdicom", "tests", fn)
        spec = importlib.util.spec_from_file_location("c17_corpus_" + fn[:-3], path)
        mod = importlib.util.module_from_spec(spec)
        spec.loader.exec_module(mod)
        for k, v in vars(mod).items():
            if isinstance(v, bytes) and not k.startswith("_"):
                blobs[k] = v
    cmds = {k: v for k, v in blobs.items() if v and v[0] & 1}
    reqs, meta = [], []
    for k, v in sorted(cmds.items()):
        body = v[1:]
        try:
            ds = decode(BytesIO(body), True, True)
            elems = [[int(e.tag), ev_of(e)] for e in ds]
            real = elems
            reenc = encode(ds, True, True)
        except Exception as e:  # a capture pydicom cannot read is not a sanity reference
            ctx.note(f"corpus {k}: pydicom raised {e!r}")
            continue
        known = all(t in env.tag_kw for t, _ in elems)
        # the data set that goes with the capture, when the suite has one
        dsk = [d for d in (k.replace("_cmd", "_ds"), k.replace("_rq_cmd", "_ds"), k.replace("_cmd_b", "_ds_b")) if d in blobs and d != k]
        dsb = blobs[dsk[0]][1:] if dsk else b""
        full = None
        try:
            m = env.dm.DIMSEMessage()
            p = P_DATA()
            p.presentation_data_value_list = [[1, v]] + ([[1, blobs[dsk[0]]]] if dsk else [])
            m.decode_msg(p)
            q = m.message_to_primitive()
            r = env.rows[type(m).__name__.replace("_", "-")]
            pars = sorted([env.kw_tag[kw], to_val(getattr(q, kw))] for kw in r["attrs"] if getattr(q, kw) is not None)
            d = getattr(q, "_dataset", None)
            full = ["ok", r["name"], pars, "none" if d is None else d.getvalue()]
        except Exception as e:
            full = "raise"
        reqs += [["cmd.dec", body], ["cmd.enc", elems], ["prim.dec", body, dsb]]
        meta.append((k, body, real, reenc, known, full))
    rep = ctx.lean(reqs)
    for n, (k, body, real, reenc, known, full) in enumerate(meta):
        dec, enc, pd = norm(rep[3 * n]), rep[3 * n + 1], norm(rep[3 * n + 2])
        ctx.case(["corpus", k], nontrivial=True, kind="corpus")
        if not known:
            ctx.note(f"corpus {k}: contains elements outside the 24 modelled command elements; skipped")
            continue
        if dec != norm(real):
            ctx.diff(["corpus", k], real, dec, "captured command set: decoded elements differ")
        if enc != reenc:
            ctx.diff(["corpus", k], reenc, enc, "captured command set: re-encoding differs from pydicom's")
        if pd != norm(full):
            ctx.diff(["corpus", k], full, pd, "captured message: decoded primitive differs")
        # the capture itself is what a conformant encoder produces iff re-encoding reproduces it;
        # count those (the suite has one deliberately non-canonical capture with a duplicate)
        if reenc == body:
            ctx.hist["corpus:canonical"] += 1
    ctx.extra["corpus_command_sets"] = len(meta)


# --------------------------------------------------------------------------
# element-level stream: arbitrary values per VR through pydicom and the Lean codec
# --------------------------------------------------------------------------
def element_stream(ctx, env, n):
    from pydicom.dataset import Dataset
    from pynetdicom.dsutils import decode, encode

    rng = ctx.rng
    by_vr = {}
    for w, vr in env.kw_vr.items():
        by_vr.setdefault(vr, []).append(w)
    cases, reqs = [], []
    for _ in range(n):
        vr = rng.choice(["US", "UL", "AT", "UI", "AE", "LO"])
        kw = rng.choice(sorted(by_vr[vr]))
        m = rng.choice([0, 1, 1, 1, 2, 3, 5]) if rng.random() < 0.9 else rng.randrange(0, 30)
        if vr in ("US",):
            vals = [g_us(rng) for _ in range(m)]
        elif vr == "UL":
            vals = [rng.choice([0, 1, 65535, 65536, 2**32 - 1, rng.randrange(2**32)]) for _ in range(m)]
        elif vr == "AT":
            vals = [g_tag(rng) for _ in range(m)]
        elif vr == "UI":
            vals = [g_uid(rng).strip() or "1" for _ in range(m)]
        elif vr == "AE":
            vals = [g_ae(rng, False) for _ in range(m)]
        else:
            vals = [g_lo(rng) for _ in range(m)]
        if vr in ("UI", "AE", "LO") and vals == [""]:
            vals = []
        m = len(vals)
        ds = Dataset()
        setattr(ds, kw, None if m == 0 else (vals[0] if m == 1 else vals))
        try:
            b = encode(ds, True, True)
            back = decode(BytesIO(b), True, True)
            real_ev = ev_of(back[env.kw_tag[kw]])
        except Exception:
            b, real_ev = None, None
        if b is None:
            continue
        ev = ["nums", *vals] if vr in ("US", "UL", "AT") else ["strs", *[v.encode("latin-1") for v in vals]]
        cases.append((vr, kw, ev, b[8:], real_ev))
        reqs += [["cmd.encval", vr, ev], ["cmd.decval", vr, b[8:]]]
    rep = ctx.lean(reqs)
    for n_, (vr, kw, ev, body, real_ev) in enumerate(cases):
        ctx.case(["elem", vr, ev], nontrivial=len(ev) > 1, kind="element:" + vr)
        if rep[2 * n_] != body:
            ctx.diff(["elem", kw, ev], body, rep[2 * n_], "element value bytes differ from pydicom's writer")
        if norm(rep[2 * n_ + 1]) != norm(real_ev):
            ctx.diff(["elem", kw, ev], real_ev, rep[2 * n_ + 1], "element value read back differs from pydicom's reader")


# --------------------------------------------------------------------------
def tables_oracle(ctx, env):
    """command field values and message classes, on the implementation's tables"""
    mt = env.dm._MESSAGE_TYPES
    seen = {}
    for field, (name, cls) in mt.items():
        ctx.case(["field", name], kind="table")
        seen[name] = field
        if PS37_FIELDS.get(name) != field:
            ctx.fail(f"command-field-table:{name}", f"_MESSAGE_TYPES gives {name} the command field {field:#06x}; PS3.7 E.1: {PS37_FIELDS.get(name)}", ["field", name])
        if cls.__name__.replace("_", "-") != name:
            ctx.fail(f"message-class:{name}", f"_MESSAGE_TYPES[{field:#06x}] pairs {name} with class {cls.__name__}", ["field", name])
    for name in PS37_FIELDS:
        if name not in seen:
            ctx.fail(f"command-field-missing:{name}", f"_MESSAGE_TYPES has no entry for {name}", ["field", name])


def witnesses(ctx, env):
    """the concrete primitives of Props/C17.lean (`C17_accepted_backslash_neg`,
    `C17_accepted_overflow_neg`, the in-range `sampleRsp`), replayed on the implementation"""
    w_in = [
        dict(
            row="C-STORE-RSP",
            raw=[
                ["MessageIDBeingRespondedTo", 65535],
                ["Status", 0xA900],
                ["OffendingElement", [0x00100010, 0xFFFFFFFF]],
                ["ErrorComment", {"s": " ab  "}],
                ["AffectedSOPInstanceUID", {"s": "1.2"}],
            ],
            data="010203",
            ds_attr="DataSet",
            maxpdu=0,
        )
    ]
    w_out = [
        dict(row="C-ECHO-RQ", raw=[["MessageID", 1], ["AffectedSOPClassUID", {"s": "1\\2"}]], data=None, ds_attr=None,
             maxpdu=0, outside="AffectedSOPClassUID"),
        dict(row="C-ECHO-RSP", raw=[["MessageIDBeingRespondedTo", 1], ["Status", 65536]], data=None, ds_attr=None,
             maxpdu=0, outside="Status"),
    ]  # fmt: skip
    check_batch(ctx, env, w_in, "lean-witness")
    check_batch(ctx, env, w_out, "lean-witness", in_range=False)


def run(ctx):
    quiet()
    env = Env()
    ctx.rule = (
        "all 23 message types; each attribute of the primitive class present with p=0.65 (message parameters) / 0.12 "
        "(parameters of the other direction), boundary-biased values per VR (US 0/65535, UID length 1/63/64, AE 1..16 with "
        "padding, LO 0/63/64/65, tag lists of 0/1/2/5), random data set and PDU size; plus every subset of the message's "
        "parameters per type (thorough), values outside the VR range, the captured encodings of the test-suite and an "
        "element-level stream; non-trivial = round trip completes with at least one message parameter set"
    )
    tables_oracle(ctx, env)
    corpus(ctx, env)
    witnesses(ctx, env)
    n = ctx.n(3000, 120000)
    batch = 3000
    done = 0
    while done < n:
        k = min(batch, n - done)
        check_batch(ctx, env, [gen_case(env, ctx.rng) for _ in range(k)], "gen")
        done += k
        if ctx.diffs and len(ctx.diffs) > 50:
            break
    # every subset of the message's own parameters, per type (quick: sampled)
    import itertools

    subs = []
    for name in env.names:
        kws = [k for k in env.rows[name]["keywords"] if k != "Priority"]
        allsub = list(itertools.chain.from_iterable(itertools.combinations(kws, r) for r in range(len(kws) + 1)))
        if ctx.quick and len(allsub) > 16:
            allsub = [(), tuple(kws)] + [(k,) for k in kws] + ctx.rng.sample(allsub, 8)
        for s in allsub:
            sub = set(s) | ({"Priority"} if "Priority" in env.rows[name]["attrs"] else set())
            subs.append(gen_case(env, ctx.rng, name, subset=sub))
    for i in range(0, len(subs), batch):
        check_batch(ctx, env, subs[i : i + batch], "subset")
    ctx.extra["parameter_subsets"] = len(subs)
    ctx.exhaustive = False
    outs = [c for c in (gen_outside(env, ctx.rng) for _ in range(ctx.n(300, 6000))) if c]
    check_batch(ctx, env, outs, "outside-range", in_range=False)
    element_stream(ctx, env, ctx.n(600, 20000))
    # report the smallest failing input of every signature
    import json as _json

    ctx.failures.sort(key=lambda f: len(_json.dumps(f["case"], default=str)))
    ctx.note(
        "model = Model/Cmd.lean; strings restricted to Latin-1 without control characters; file-backed data sets "
        "(_dataset_path) and STORE_RECV_CHUNKED_DATASET are not exercised here (C25)"
    )


def search(ctx):
    """the model or a theorem no longer matches: hunt for an input on which the implementation
    itself violates the property (oracle only, larger batch)"""
    quiet()
    env = Env()
    tables_oracle(ctx, env)
    for _ in range(4 if ctx.quick else 20):
        if ctx.failures:
            return
        check_batch(ctx, env, [gen_case(env, ctx.rng) for _ in range(3000)], "search", use_model=False)


def replay(ctx, case):
    quiet()
    env = Env()
    c = case["case"]
    if isinstance(c, list):
        if c[0] == "field":
            f = {v[0]: k for k, v in env.dm._MESSAGE_TYPES.items()}.get(c[1])
            print(f"_MESSAGE_TYPES: {c[1]} -> {f!r}; PS3.7: {PS37_FIELDS.get(c[1]):#06x}")
            return 0 if f == PS37_FIELDS.get(c[1]) else 1
        print("case", c, "is a corpus/element correspondence case; re-run the check")
        return 0
    o = real_run(env, c)
    print("message type :", c["row"], " max pdu:", c["maxpdu"])
    print("raw values   :", c["raw"])
    print("stored       :", {k: v for k, v in o["stored"].items() if v != "none"})
    print("stage        :", o["stage"], o.get("exc", ""))
    if o["stage"] == "ok":
        print("command set  :", o["cmd"].hex())
        print("decoded type :", o["mtype"])
        print("decoded      :", {k: v for k, v in o["decoded"].items() if v != "none"})
        print("decoded data :", o["decoded_data"])
    if c.get("outside"):
        kw = c["outside"]
        bad = o["stage"] == "ok" and kw in env.rows[c["row"]]["keywords"] and o["decoded"].get(kw) != py_canon(env.kw_vr[kw], o["stored"][kw])
        print("outside-range parameter", kw, "silently changed" if bad else "refused or preserved")
        return 1 if bad else 0
    bad = oracle(env, c, o)
    for sig, what in bad:
        print("ORACLE FAILS:", sig, "-", what)
    return 1 if bad else 0
