"""C05 on whole associations: the layer above the provider must not issue a request primitive in a state where PS3.8
does not define it (the hypothesis of `C05_defined_partial`).  Directed real runs:

* an EVT_REQUESTED handler of the acceptor refuses the association (`acse.send_abort`, `assoc.abort()`,
  `acse.send_reject`); the association thread must not go on to negotiate (an A-ASSOCIATE response issued in Sta13 is
  Evt7/Evt8 without a table entry).  A slow EVT_FSM_TRANSITION observer keeps the provider in Sta13 long enough for a
  stray primitive to be met there.

Oracle: no thread dies, the provider's transitions end in Sta1, nothing is left in the provider's request queue.
"""
import threading
import time

from harness import e2e

KINDS = ["send_abort", "abort", "reject"]


def refusal_scenario(args):
    kind, slow = args
    from pynetdicom import AE, evt
    from pynetdicom.sop_class import Verification

    e2e.quiet()
    before = set(e2e.pynet_threads())
    errors, trans, leftovers, assocs = [], [], [], []
    old_hook = threading.excepthook
    threading.excepthook = lambda a: errors.append((type(a.thread).__name__, a.exc_type.__name__ + ": " + str(a.exc_value)))

    def on_requested(event):
        assocs.append(event.assoc)
        if kind == "send_abort":
            event.assoc.acse.send_abort(0x00)
        elif kind == "abort":
            event.assoc.abort()
        else:
            event.assoc.acse.send_reject(0x01, 0x01, 0x01)

    def on_fsm(event):
        trans.append((event.current_state, event.fsm_event, event.action, event.next_state))
        if slow and event.next_state == "Sta13":
            time.sleep(0.3)

    t_o = 2.0 * e2e.load_factor()
    ae = AE(ae_title="ACCEPTOR")
    ae.add_supported_context(Verification)
    ae.acse_timeout = ae.dimse_timeout = ae.network_timeout = t_o
    srv = ae.start_server(("127.0.0.1", 0), block=False,
                          evt_handlers=[(evt.EVT_REQUESTED, on_requested), (evt.EVT_FSM_TRANSITION, on_fsm)])
    try:
        cl = AE(ae_title="REQUESTOR")
        cl.add_requested_context(Verification)
        cl.acse_timeout = cl.dimse_timeout = cl.network_timeout = t_o
        a = cl.associate("127.0.0.1", srv.socket.getsockname()[1])
        established = a.is_established
        if established:
            a.release()
        leaks = e2e.wait_quiet(before, 3 * t_o + 2.0)
        if assocs:
            q = assocs[0].dul.to_provider_queue
            while not q.empty():
                leftovers.append(type(q.get_nowait()).__name__)
        return {"kind": kind, "slow": slow, "errors": errors, "trans": trans, "leftovers": leftovers, "leaks": leaks,
                "established": established}
    finally:
        threading.excepthook = old_hook
        try:
            srv.shutdown()
        except Exception:
            pass


def release_unexpected_scenario(slow):
    """The local user releases (Sta7); the scripted peer answers the A-RELEASE-RQ with a second A-ASSOCIATE-AC - an
    unexpected PDU: AA-8, A-ABORT sent, Sta13, A-P-ABORT indication to the releasing thread.  The provider still has to
    close the transport and return to Sta1; a slow EVT_FSM_TRANSITION observer keeps it in Sta13 a little longer."""
    import socket

    from harness.props import c08
    from pynetdicom import AE, evt
    from pynetdicom.sop_class import Verification

    e2e.quiet()
    B = c08._bytes()
    errors, trans = [], []
    old_hook = threading.excepthook
    threading.excepthook = lambda a: errors.append((type(a.thread).__name__, a.exc_type.__name__ + ": " + str(a.exc_value)))
    lst = socket.socket()
    lst.bind(("127.0.0.1", 0))
    lst.listen(1)
    peer = {"eof": False}

    def serve():
        c, _ = lst.accept()
        c.settimeout(6.0)
        try:
            c.recv(65536)          # A-ASSOCIATE-RQ
            c.sendall(B["ac"])
            c.recv(65536)          # A-RELEASE-RQ
            c.sendall(B["ac"])     # not what Sta7 expects
            while True:
                d = c.recv(65536)  # the A-ABORT, then the close
                if not d:
                    peer["eof"] = True
                    break
        except OSError:
            pass
        finally:
            c.close()

    th = threading.Thread(target=serve, daemon=True)
    th.start()

    def on_fsm(event):
        trans.append((event.current_state, event.fsm_event, event.action, event.next_state))
        if slow and event.next_state == "Sta13":
            time.sleep(0.4)

    try:
        ae = AE()
        ae.add_requested_context(Verification)
        ae.acse_timeout = ae.dimse_timeout = ae.network_timeout = 3.0 * e2e.load_factor()
        a = ae.associate("127.0.0.1", lst.getsockname()[1], evt_handlers=[(evt.EVT_FSM_TRANSITION, on_fsm)])
        if not a.is_established:
            return {"harness_error": "association with the scripted peer not established"}
        a.release()
        t0 = time.monotonic()
        while a.dul.is_alive() and time.monotonic() - t0 < 3.0:
            time.sleep(0.01)
        th.join(3.0)
        sock = getattr(a.dul.socket, "socket", None)
        closed = sock is None or sock.fileno() == -1
        return {"slow": slow, "errors": errors, "trans": trans, "dul_alive": a.dul.is_alive(), "socket_closed": closed,
                "peer_saw_close": peer["eof"], "aborted": a.is_aborted}
    finally:
        threading.excepthook = old_hook
        lst.close()


def run(ctx, reps):
    import multiprocessing as mp

    items = [(k, s) for k in KINDS for s in (True, False)] * reps
    pool = mp.get_context("fork").Pool(processes=4, maxtasksperchild=1, initializer=e2e.no_join_at_exit)
    try:
        results = pool.map(refusal_scenario, items)
    finally:
        pool.terminate()
        pool.join()
    for r in results:
        case = ["e2e-refusal", r["kind"], r["slow"]]
        ctx.case(case, nontrivial=len(r["trans"]) >= 3, kind=f"e2e-refusal:{r['kind']}:{'slow' if r['slow'] else 'fast'}")
        died = [e for e in r["errors"] if "InvalidEventError" in e[1]]
        if died:
            ctx.fail("e2e-refusal:undefined-event", f"acceptor refuses in its EVT_REQUESTED handler ({r['kind']}): {died[0][1]}", case)
        elif r["errors"]:
            ctx.fail("e2e-refusal:thread-died", f"acceptor refuses in its EVT_REQUESTED handler ({r['kind']}): {r['errors'][0]}", case)
        if r["trans"] and r["trans"][-1][3] != "Sta1":
            ctx.fail("e2e-refusal:not-idle", f"after the refusal ({r['kind']}) the provider's transitions end in {r['trans'][-1][3]}, not Sta1: {r['trans']}", case)
        if r["leftovers"]:
            ctx.fail("e2e-refusal:request-after-refusal", f"request primitives issued after the refusal ({r['kind']}) and never handled: {r['leftovers']}", case)
        if r["established"]:
            ctx.fail("e2e-refusal:established", f"the refused association ({r['kind']}) was established", case)
    pool = mp.get_context("fork").Pool(processes=2, maxtasksperchild=1, initializer=e2e.no_join_at_exit)
    try:
        rel = pool.map(release_unexpected_scenario, [True, False] * reps)
    finally:
        pool.terminate()
        pool.join()
    for r in rel:
        case = ["e2e-release-unexpected", r.get("slow")]
        ctx.case(case, nontrivial=True, kind=f"e2e-release-unexpected:{'slow' if r.get('slow') else 'fast'}-observer")
        if "harness_error" in r:
            ctx.diff(case, r, "n/a", "scenario harness failed")
            continue
        last = r["trans"][-1][3] if r["trans"] else None
        if r["errors"]:
            ctx.fail("e2e-release-unexpected:thread-died", f"release answered by an unexpected PDU: {r['errors'][0]}", case)
        if last != "Sta1" or not r["socket_closed"] or not r["peer_saw_close"]:
            ctx.fail("e2e-release-unexpected:not-idle",
                     f"release answered by an unexpected PDU: the provider's transitions end in {last}, socket closed={r['socket_closed']}, "
                     f"peer saw the connection close={r['peer_saw_close']} (transitions {r['trans'][-4:]})", case)


def replay(ctx, case):
    if case[0] == "e2e-release-unexpected":
        r = release_unexpected_scenario(bool(case[1]))
        print(r)
        last = r["trans"][-1][3] if r.get("trans") else None
        return 1 if r.get("errors") or last != "Sta1" or not r.get("socket_closed") or not r.get("peer_saw_close") else 0
    r = refusal_scenario((case[1], case[2]))
    print(r)
    bad = r["errors"] or r["leftovers"] or r["established"] or (r["trans"] and r["trans"][-1][3] != "Sta1")
    return 1 if bad else 0
