"""C05 on whole associations: the layer above the provider must not issue a request primitive in a state where PS3.8
does not define it (the hypothesis of `C05_defined_partial`).  Directed real runs:

* an EVT_REQUESTED handler of the acceptor refuses the association (`acse.send_abort`, `assoc.abort()`,
  `acse.send_reject`); the association thread must not go on to negotiate (an A-ASSOCIATE response issued in Sta13 is
  Evt7/Evt8 without a table entry).  A slow EVT_FSM_TRANSITION observer keeps the provider in Sta13 long enough for a
  stray primitive to be met there.

Oracle: no thread dies, the provider's transitions end in Sta1, nothing is left in the provider's request queue.
"""
import threading
import time

from harness import e2e

KINDS = ["send_abort", "abort", "reject"]


def refusal_scenario(args):
    kind, slow = args
    from pynetdicom import AE, evt
    from pynetdicom.sop_class import Verification

    e2e.quiet()
    before = set(e2e.pynet_threads())
    errors, trans, leftovers, assocs = [], [], [], []
    old_hook = threading.excepthook
    threading.excepthook = lambda a: errors.append((type(a.thread).__name__, a.exc_type.__name__ + ": " + str(a.exc_value)))

    def on_requested(event):
        assocs.append(event.assoc)
        if kind == "send_abort":
            event.assoc.acse.send_abort(0x00)
        elif kind == "abort":
            event.assoc.abort()
        else:
            event.assoc.acse.send_reject(0x01, 0x01, 0x01)

    def on_fsm(event):
        trans.append((event.current_state, event.fsm_event, event.action, event.next_state))
        if slow and event.next_state == "Sta13":
            time.sleep(0.3)

    t_o = 2.0 * e2e.load_factor()
    ae = AE(ae_title="ACCEPTOR")
    ae.add_supported_context(Verification)
    ae.acse_timeout = ae.dimse_timeout = ae.network_timeout = t_o
    srv = ae.start_server(("127.0.0.1", 0), block=False,
                          evt_handlers=[(evt.EVT_REQUESTED, on_requested), (evt.EVT_FSM_TRANSITION, on_fsm)])
    try:
        cl = AE(ae_title="REQUESTOR")
        cl.add_requested_context(Verification)
        cl.acse_timeout = cl.dimse_timeout = cl.network_timeout = t_o
        a = cl.associate("127.0.0.1", srv.socket.getsockname()[1])
        established = a.is_established
        if established:
            a.release()
        leaks = e2e.wait_quiet(before, 3 * t_o + 2.0)
        if assocs:
            q = assocs[0].dul.to_provider_queue
            while not q.empty():
                leftovers.append(type(q.get_nowait()).__name__)
        return {"kind": kind, "slow": slow, "errors": errors, "trans": trans, "leftovers": leftovers, "leaks": leaks,
                "established": established}
    finally:
        threading.excepthook = old_hook
        try:
            srv.shutdown()
        except Exception:
            pass


def run(ctx, reps):
    import multiprocessing as mp

    items = [(k, s) for k in KINDS for s in (True, False)] * reps
    pool = mp.get_context("fork").Pool(processes=4, maxtasksperchild=1, initializer=e2e.no_join_at_exit)
    try:
        results = pool.map(refusal_scenario, items)
    finally:
        pool.terminate()
        pool.join()
    for r in results:
        case = ["e2e-refusal", r["kind"], r["slow"]]
        ctx.case(case, nontrivial=len(r["trans"]) >= 3, kind=f"e2e-refusal:{r['kind']}:{'slow' if r['slow'] else 'fast'}")
        died = [e for e in r["errors"] if "InvalidEventError" in e[1]]
        if died:
            ctx.fail("e2e-refusal:undefined-event", f"acceptor refuses in its EVT_REQUESTED handler ({r['kind']}): {died[0][1]}", case)
        elif r["errors"]:
            ctx.fail("e2e-refusal:thread-died", f"acceptor refuses in its EVT_REQUESTED handler ({r['kind']}): {r['errors'][0]}", case)
        if r["trans"] and r["trans"][-1][3] != "Sta1":
            ctx.fail("e2e-refusal:not-idle", f"after the refusal ({r['kind']}) the provider's transitions end in {r['trans'][-1][3]}, not Sta1: {r['trans']}", case)
        if r["leftovers"]:
            ctx.fail("e2e-refusal:request-after-refusal", f"request primitives issued after the refusal ({r['kind']}) and never handled: {r['leftovers']}", case)
        if r["established"]:
            ctx.fail("e2e-refusal:established", f"the refused association ({r['kind']}) was established", case)


def replay(ctx, case):
    r = refusal_scenario((case[1], case[2]))
    print(r)
    bad = r["errors"] or r["leftovers"] or r["established"] or (r["trans"] and r["trans"][-1][3] != "Sta1")
    return 1 if bad else 0
