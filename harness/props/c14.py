"""C14 — concurrent acceptor associations never exceed the configured maximum.

Trace validation with real concurrency: bursts of raw-socket peers connect
simultaneously (barrier) to a real threaded acceptor with
`maximum_associations = max`, some associations being held open beforehand, and
release/abort at random times while a second wave arrives.  Recorded on the
server side, totally ordered by one lock: the notification events
(ESTABLISHED / REJECTED / RELEASED / ABORTED) and — through a subclass of `AE`
that only wraps the public `active_associations` property — every evaluation of
the limit check with the exact set of live acceptor threads it saw.

Oracles on the implementation: at no point of the recorded order are more than
`max` associations established; every A-ASSOCIATE-RJ a peer received is
(2, 3, 2); a check that saw more than `max` live acceptor threads led to a reject.
Correspondence: the recorded order, with thread births/deaths inferred from the
observed live sets, is replayed as a schedule through the Lean model
(`maxassoc`): every action must be enabled, the model's live count must equal
the observed one at every check, and its verdicts must be the real ones.

Level: partial — real thread scheduling is sampled, not enumerated; the
atomicity of `threading.enumerate()` is an assumption of the model.
"""
from __future__ import annotations

import threading
import time

from harness import rawpeer as rp

LEVEL = "proof"


class Recorder:
    def __init__(self):
        self.lock = threading.Lock()
        self.events = []
        self.keep = []  # the objects whose id() is recorded stay referenced: no id reuse within a burst

    def add(self, kind, assoc, extra=None):
        with self.lock:
            self.keep.append(assoc)
            self.events.append((kind, id(assoc), extra, time.monotonic()))

    def take(self):
        with self.lock:
            ev, self.events = self.events, []
            self.keep = []
        return ev


def make_server():
    from pynetdicom import AE, evt
    from pynetdicom.association import Association

    rec = Recorder()

    class RecAE(AE):
        """AE whose `active_associations` additionally records what the limit check saw."""

        @property
        def active_associations(self):
            cur = threading.current_thread()
            if isinstance(cur, Association) and cur.is_acceptor and cur.ae is self:
                with rec.lock:
                    r = AE.active_associations.fget(self)
                    rec.keep.extend(r)
                    rec.events.append(
                        ("check", id(cur), [id(t) for t in r if t.is_acceptor], time.monotonic())
                    )
                return r
            return AE.active_associations.fget(self)

    ae = RecAE(ae_title="SCP")
    ae.add_supported_context(rp.VERIFICATION)
    ae.acse_timeout = 5
    ae.network_timeout = 20

    def h(kind):
        def f(event):
            extra = None
            if kind == "open":
                extra = int(event.address[1])
            rec.add(kind, event.assoc, extra)

        return f

    handlers = [
        (evt.EVT_CONN_OPEN, h("open")),
        (evt.EVT_ESTABLISHED, h("est")),
        (evt.EVT_REJECTED, h("rej")),
        (evt.EVT_RELEASED, h("end")),
        (evt.EVT_ABORTED, h("end")),
    ]
    srv = ae.start_server(("127.0.0.1", 0), block=False, evt_handlers=handlers)
    srv.socket.listen(128)  # TCPServer's default backlog of 5 would serialise the bursts through SYN retries
    return ae, srv, rec


def drain(ae, limit=10.0):
    t0 = time.monotonic()
    while ae.active_associations:
        if time.monotonic() - t0 > limit:
            return False
        time.sleep(0.002)
    return True


# --------------------------------------------------------------------------
# one burst
# --------------------------------------------------------------------------
def gen_burst(rng):
    m = rng.choice([1, 2, 3])
    pre = rng.randrange(0, m + 1)
    n1 = rng.randrange(max(1, m - 1), 3 * m + 1)
    n2 = rng.randrange(0, 2 * m + 1)
    peers = []
    for i in range(n1):
        peers.append([0, rng.randrange(0, 40), rng.choice(["release", "release", "abort", "close"])])
    for i in range(n2):
        peers.append([rng.randrange(1, 60), rng.randrange(0, 30), rng.choice(["release", "abort", "close"])])
    pre_end = [[rng.randrange(0, 50), rng.choice(["release", "abort"])] for _ in range(pre)]
    return ["burst", m, pre_end, peers]


def finish_peer(p, how):
    if how == "release":
        p.send(rp.RELEASE_RQ)
        p.recv_pdu(5.0)
    elif how == "abort":
        p.send(rp.ABORT)
    p.close()


def run_burst(ae, srv, rec, case):
    _, m, pre_end, peers = case
    ae.maximum_associations = m
    rec.take()
    addr = srv.server_address
    rq = rp.build_rq(b"SCP".ljust(16), b"PEER".ljust(16))
    out = {"peer": [None] * len(peers), "pre": [], "errors": []}
    # associations established one after the other before the burst
    held = []
    for _ in pre_end:
        p = rp.RawPeer(addr)
        p.send(rq)
        v = rp.classify(p.recv_pdu(5.0))
        out["pre"].append([p.sock.getsockname()[1], v])
        held.append(p)
    n1 = sum(1 for d, _, _ in peers if d == 0)
    barrier = threading.Barrier(n1 + 1)
    wave1_done = threading.Event()
    replies = [0]
    cnt = threading.Lock()

    def peer(i, delay, hold, how):
        try:
            if delay == 0:
                barrier.wait(10)
            else:
                wave1_done.wait(10)
                time.sleep(delay / 1000.0)
            p = rp.RawPeer(addr, timeout=10.0)
            port = p.sock.getsockname()[1]
            p.send(rq)
            v = rp.classify(p.recv_pdu(10.0))
            out["peer"][i] = [port, v]
            if delay == 0:
                with cnt:
                    replies[0] += 1
                    if replies[0] == n1:
                        wave1_done.set()
                wave1_done.wait(10)  # hold until every simultaneous request was answered
            if v == ["accept"]:
                time.sleep(hold / 1000.0)
                finish_peer(p, how)
            else:
                p.close()
        except Exception as e:  # noqa: BLE001
            out["errors"].append(f"peer {i}: {e!r}")
            wave1_done.set()

    ts = [threading.Thread(target=peer, args=(i, *pp), daemon=True) for i, pp in enumerate(peers)]
    for t in ts:
        t.start()
    barrier.wait(10)
    # the held associations end at random times after the first wave was answered
    wave1_done.wait(10)
    t0 = time.monotonic()
    for (delay, how), p in sorted(zip(pre_end, held), key=lambda x: x[0][0]):
        dt = delay / 1000.0 - (time.monotonic() - t0)
        if dt > 0:
            time.sleep(dt)
        finish_peer(p, how)
    for t in ts:
        t.join(30)
    out["drained"] = drain(ae)
    out["events"] = rec.take()
    return out


# --------------------------------------------------------------------------
# oracles + schedule reconstruction
# --------------------------------------------------------------------------
def analyse(ctx, case, out):
    """-> (schedule for the model, expectations, summary) and reports oracle failures."""
    _, m, pre_end, peers = case
    evs = out["events"]
    # (a) never more than max established, swept over the recorded order
    est = set()
    peak = 0
    for kind, a, extra, _t in evs:
        if kind == "est":
            est.add(a)
        elif kind == "end":
            est.discard(a)
        peak = max(peak, len(est))
        if len(est) > m:
            ctx.fail(
                "c14:more-than-max-established",
                f"{len(est)} associations established at once with maximum_associations={m} "
                f"(pre-established {len(pre_end)}, {len(peers)} peers)",
                case,
            )
            break
    # (b) every RJ is (2,3,2); every peer got AC or RJ
    answers = [v for _, v in out["pre"]] + [x[1] for x in out["peer"] if x is not None]
    for v in answers:
        if v[0] == "reject" and v != ["reject", 2, 3, 2]:
            ctx.fail(f"c14:reject-triple:{tuple(v[1:])}", f"A-ASSOCIATE-RJ {v[1:]} instead of (2, 3, 2), max={m}", case)
    # (c) a check that saw more than max live acceptor threads must lead to a reject (and vice versa
    #     nothing else rejects in this scenario)
    port_of = {a: extra for kind, a, extra, _ in evs if kind == "open"}
    answer_of_port = {p: v for p, v in out["pre"]}
    answer_of_port.update({x[0]: x[1] for x in out["peer"] if x is not None})
    over = 0
    for kind, a, extra, _t in evs:
        if kind != "check":
            continue
        n = len(extra)
        v = answer_of_port.get(port_of.get(a))
        if n > m:
            over += 1
            if v is not None and v[0] != "reject":
                ctx.fail(
                    "c14:over-limit-request-not-rejected",
                    f"a request whose check saw {n} live acceptor threads (max={m}) was answered {v}",
                    case,
                )
    # schedule for the model
    idx = {}
    alive = set()
    sched, expect = [], []

    def spawn(a):
        if a not in idx:
            idx[a] = len(idx)
            alive.add(a)
            sched.append("spawn")
            expect.append(None)

    for kind, a, extra, _t in evs:
        if kind == "check":
            for u in extra:
                spawn(u)
            spawn(a)
            for v in sorted(alive - set(extra), key=lambda x: idx[x]):
                alive.discard(v)
                sched.append(["die", idx[v]])
                expect.append(None)
            sched.append(["check", idx[a]])
            v = answer_of_port.get(port_of.get(a))
            expect.append(["check", len(extra), None if v is None else v[0] == "reject"])
        elif kind == "est":
            spawn(a)
            sched.append(["establish", idx[a]])
            expect.append(None)
        elif kind == "end":
            if a in idx:
                sched.append(["finish", idx[a]])
                expect.append(["finish"])
    return sched, expect, {"peak": peak, "over_limit_checks": over, "answers": answers}


def compare(ctx, case, sched, expect, reply):
    """the recorded history must be a run of the model with the same observations"""
    _, m, _, _ = case
    steps, final = reply
    for k, (act, exp, (en, live, est, phase)) in enumerate(zip(sched, expect, steps)):
        if en != "T" and exp != ["finish"]:
            # (EVT_ABORTED of an association that never got established is tolerated: finish is a no-op)
            ctx.diff(case, f"step {k} {act} happened", "not enabled in the model", what="recorded history is not a run of the model")
            return
        if est > m:
            ctx.diff(case, "trace", f"model established {est} > {m}", what="model invariant broken (impossible)")
            return
        if exp and exp[0] == "check":
            _, n, real_rejected = exp
            if live != n:
                ctx.diff(case, f"check saw {n} live acceptor threads", f"model has {live}", what="live count differs at a check")
                return
            if real_rejected is not None and (phase == "rejected") != real_rejected:
                ctx.diff(
                    case,
                    "rejected" if real_rejected else "accepted",
                    phase,
                    what=f"verdict of a check that saw {n} live acceptor threads with max={m}",
                )
                return


def run(ctx):
    rp.quiet()
    ctx.rule = (
        "real concurrency: per burst max∈{1,2,3}, 0..max associations established beforehand, N∈{max-1..3·max} raw peers "
        "connecting at a barrier, a second wave arriving while associations end at random times; non-trivial = burst in "
        "which at least one check saw more than max live acceptor threads"
    )
    ctx.assumptions.append(
        "C14 (partial): OS/CPython thread scheduling is sampled by the bursts, not enumerated; threading.enumerate() is "
        "assumed atomic (it holds _active_limbo_lock); thread births/deaths are inferred from the live sets the checks saw"
    )
    ae, srv, rec = make_server()
    try:
        nb = ctx.n(30, 400)
        cases = [
            ["burst", 1, [[10, "release"]], [[0, 5, "release"], [0, 5, "abort"], [20, 5, "release"]]],
            ["burst", 2, [[5, "release"], [30, "abort"]], [[0, 10, "release"]] * 4 + [[25, 5, "close"]] * 2],
            ["burst", 3, [], [[0, 20, "release"]] * 9],
        ]
        while len(cases) < nb:
            cases.append(gen_burst(ctx.rng))
        peaks = {}
        reqs, metas = [], []
        for case in cases:
            out = run_burst(ae, srv, rec, case)
            m = case[1]
            if out["errors"] or not out["drained"] or any(x is None for x in out["peer"]):
                ctx.diff(case, out["errors"] or "threads left / peer unanswered", "clean burst", what="harness could not complete the burst")
                if not out["drained"]:
                    # start from a fresh server so one stuck burst does not poison the rest
                    srv.shutdown()
                    ae, srv, rec = make_server()
                continue
            bad = [v for v in out_answers(out) if v[0] not in ("accept", "reject")]
            if bad:
                ctx.diff(case, bad, "AC or RJ", what="a peer was answered with neither A-ASSOCIATE-AC nor -RJ")
            sched, expect, summ = analyse(ctx, case, out)
            ctx.case(case, nontrivial=summ["over_limit_checks"] > 0, kind=f"max={m}|peak={summ['peak']}|over={min(summ['over_limit_checks'], 3)}")
            peaks[m] = max(peaks.get(m, 0), summ["peak"])
            reqs.append(["maxassoc", m, sched])
            metas.append((case, sched, expect))
        replies = ctx.lean(reqs)
        for (case, sched, expect), reply in zip(metas, replies):
            if reply == "ERR:args":
                ctx.diff(case, "schedule", "ERR:args")
                continue
            compare(ctx, case, sched, expect, reply)
        ctx.extra["peak_established_by_max"] = {str(k): v for k, v in sorted(peaks.items())}
        check_restart(ctx)
    finally:
        try:
            srv.shutdown()
        except Exception:
            pass


def restart_scenario(m, via):
    """The limit is the AE's, not a listener's: fill the AE to its limit through one server, stop that server (its
    associations stay open), open another listener on the same AE (`via` = "start_server" | "make_server") and ask
    for more associations.  -> dict(first=[answers], later=[answers], peak=established acceptor associations seen)"""
    from pynetdicom import AE
    from pynetdicom.association import Association

    ae = AE(ae_title="SCP")
    ae.add_supported_context(rp.VERIFICATION)
    ae.acse_timeout = 5
    ae.network_timeout = 30
    ae.maximum_associations = m

    def established():
        return len([t for t in threading.enumerate() if isinstance(t, Association) and t.ae is ae and t.is_acceptor and t.is_established])

    def ask(addr):
        p = rp.RawPeer(addr)
        p.send(rp.build_rq(b"SCP".ljust(16), b"PEER".ljust(16)))
        return p, rp.classify(p.recv_pdu(5.0))

    out = {"first": [], "later": [], "peak": 0}
    held = []
    srv_a = ae.start_server(("127.0.0.1", 0), block=False)
    srv_b = None
    try:
        for _ in range(m + 1):
            p, v = ask(srv_a.server_address)
            out["first"].append(v)
            held.append(p)
            out["peak"] = max(out["peak"], established())
        srv_a.shutdown()
        time.sleep(0.05)
        if via == "start_server":
            srv_b = ae.start_server(("127.0.0.1", 0), block=False)
        else:
            srv_b = ae.make_server(("127.0.0.1", 0))
            threading.Thread(target=srv_b.serve_forever, daemon=True).start()
        for _ in range(m + 1):
            p, v = ask(srv_b.server_address)
            out["later"].append(v)
            held.append(p)
            out["peak"] = max(out["peak"], established())
        return out
    finally:
        for p in held:
            try:
                p.send(rp.ABORT)
                p.close()
            except Exception:
                pass
        for sv in (srv_b, srv_a):
            try:
                if sv is not None:
                    sv.shutdown()
            except Exception:
                pass


def check_restart(ctx):
    for m in (1, 2):
        for via in ("start_server", "make_server"):
            case = ["restart", m, via]
            try:
                out = restart_scenario(m, via)
            except Exception as exc:
                ctx.diff(case, repr(exc), "n/a", what="server replacement scenario failed")
                continue
            ctx.case(case, nontrivial=True, kind=f"restart:{via}")
            want_first = [["accept"]] * m + [["reject", 2, 3, 2]]
            want_later = [["reject", 2, 3, 2]] * (m + 1)
            if out["peak"] > m or out["later"] != want_later:
                ctx.fail(f"c14:over-limit-after-server-replacement:{via}",
                         f"maximum_associations={m}: {m} associations held through a listener that was then shut down; a second listener "
                         f"({via}) on the same AE answered {out['later']} (expected rejections (2,3,2)); established acceptor associations peaked at {out['peak']}", case)
            elif out["first"] != want_first:
                ctx.diff(case, out["first"], want_first, what="first listener: answers differ from accept x max + reject(2,3,2)")


def search(ctx):
    """correspondence broken or a theorem no longer builds: hunt for a burst in which the real acceptor
    violates the property itself (oracles only, more bursts)"""
    rp.quiet()
    ae, srv, rec = make_server()
    try:
        for _ in range(ctx.n(40, 200)):
            case = gen_burst(ctx.rng)
            out = run_burst(ae, srv, rec, case)
            if out["errors"] or not out["drained"]:
                srv.shutdown()
                ae, srv, rec = make_server()
                continue
            analyse(ctx, case, out)
            if ctx.failures:
                return
    finally:
        try:
            srv.shutdown()
        except Exception:
            pass


def out_answers(out):
    return [v for _, v in out["pre"]] + [x[1] for x in out["peer"] if x is not None]


def replay(ctx, case):
    rp.quiet()
    c = case["case"]
    if c[0] == "restart":
        out = restart_scenario(c[1], c[2])
        print(out)
        return 1 if out["peak"] > c[1] or out["later"] != [["reject", 2, 3, 2]] * (c[1] + 1) else 0
    ae, srv, rec = make_server()
    rc = 0
    try:
        for k in range(10):
            out = run_burst(ae, srv, rec, c)

            class _C:
                failures = []

                def fail(self, sig, what, case):
                    self.failures.append((sig, what))

            cc = _C()
            _, _, summ = analyse(cc, c, out)
            print(f"run {k}: answers={summ['answers']} peak={summ['peak']} over-limit checks={summ['over_limit_checks']} -> {cc.failures or 'ok'}")
            if cc.failures:
                rc = 1
    finally:
        srv.shutdown()
    return rc
