"""C04 — the state machine reacts to every state/event pair as PS3.8 prescribes.

Real side: `StateMachine.do_action` executed for all 988 inputs (translate/fsm.py).
Model side: the hand-transcribed PS3.8 tables evaluated by the Lean driver.
A difference is a violation of the property itself (the spec *is* PS3.8).
"""
from translate import fsm as tr

GEN = [tr.generate]
BOOKKEEPING = {"sentinel", "notifyConnClose", "kill", "popPrim", "popPdu"}


def canon(res):
    if res is None:
        return "invalid"
    if res[0] == "raise":
        return "raised"
    effs = [n if not a else [n, *a] for n, a in res[0] if n not in BOOKKEEPING]
    return ["ok", effs, int(res[1][3:])]


def run(ctx):
    ctx.rule = (
        "exhaustive: do_action executed on the real code for all 19x13 (event,state) pairs x role x data variant; "
        "non-trivial = pair with a table entry"
    )
    rows, declared, runs = tr.extract()
    exp = ctx.lean([["fsm.expected", e, s, r, a] for (e, s, r, a), _ in runs])
    for ((e, s, r, a), res), x in zip(runs, exp):
        got = canon(res)
        ctx.case(["fsm", e, s, r, a], nontrivial=res is not None, kind="defined" if res is not None else "not-allowed")
        if got != x:
            ctx.fail(
                f"fsm:Evt{e}:Sta{s}:{'req' if r else 'acc'}:{'alt' if a else 'std'}",
                f"(Evt{e}, Sta{s}, requestor={r}, alt={a}): code does {got}, PS3.8 prescribes {x}",
                ["fsm", e, s, r, a],
            )
    # AE-6 decides on DATA: the Protocol-version field of the A-ASSOCIATE-RQ.  PS3.8 9.3.2: version 1 is bit 0; a
    # request without bit 0 does not offer the version this implementation speaks and gets the A-ASSOCIATE-RJ (Sta13),
    # one with exactly version 1 is indicated to the user (Sta3).  Boundary values of the 16-bit field:
    std = ctx.lean([["fsm.expected", 6, 2, False, False], ["fsm.expected", 6, 2, False, True]])
    for v in (0, 1, 2, 4, 0x0100, 0x8000, 0xFFFE):
        got = canon(tr.execute("Evt6", "Sta2", False, False, version=v))
        want = std[0] if v == 1 else std[1]
        case = ["fsm-version", v]
        ctx.case(case, nontrivial=True, kind="ae6-protocol-version:" + ("1" if v == 1 else "bit0-clear"))
        if got != want:
            ctx.fail(f"fsm:AE-6:protocol-version:{'accepted-without-bit-0' if v != 1 else 'version-1-refused'}",
                     f"(Evt6, Sta2) with Protocol-version {v:#06x}: code does {got}, PS3.8 prescribes {want}", case)
    ctx.extra["table_entries"] = len(rows)
    ctx.exhaustive = True


def replay(ctx, case):
    if case["case"][0] == "fsm-version":
        v = case["case"][1]
        got = canon(tr.execute("Evt6", "Sta2", False, False, version=v))
        want = ctx.lean([["fsm.expected", 6, 2, False, v != 1]])[0]
        print("code :", got)
        print("PS3.8:", want)
        return 0 if got == want else 1
    _, e, s, r, a = case["case"]
    res = tr.execute(f"Evt{e}", f"Sta{s}", bool(r), bool(a))
    exp = ctx.lean([["fsm.expected", e, s, bool(r), bool(a)]])[0]
    print("code :", canon(res))
    print("PS3.8:", exp)
    return 0 if canon(res) == exp else 1
