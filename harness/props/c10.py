"""C10 — acceptor-side presentation context negotiation follows PS3.8 and the role table.

Real side: `negotiate_as_acceptor`, `negotiate_unrestricted` (and the mode choice of
`ACSE._negotiate_as_acceptor`) called in-process with `PresentationContext` lists built with the
repo's own class.  Model side: `nego.acc` / `nego.unr` of the Lean driver (Model/Nego.lean, for which
Props/C10.lean proves the property).  Every case is (1) compared model vs implementation on the
canonical result and (2) put through `nego.oracle_c10`, the clauses of the property evaluated on the
implementation's output alone, with the documented role table taken from the hand transcription of
the docs (Spec/Roles.lean via `roles.doc`).
"""
import itertools

from harness import nego as N
from translate import roles as tr_roles

GEN = [tr_roles.generate]


def _sx(rq, ac, roles, unrestricted, sl):
    if unrestricted:
        return ["nego.unr", sl, [N.sx_cx(c) for c in rq], [N.sx_cx(c) for c in ac], N.sx_roles(roles)]
    return ["nego.acc", [N.sx_cx(c) for c in rq], [N.sx_cx(c) for c in ac], N.sx_roles(roles)]


def _kind(rq, ac, roles, real, gen_kind, unrestricted):
    if real[0] != "ok":
        return f"{gen_kind.split('+')[-1]}:raises-{real[1]}"
    results = {r[2] for r in real[1]}
    shape = "empty" if not rq else ("mixed" if (0 in results and len(results) > 1) else ("all-accepted" if results == {0} else "all-rejected"))
    return f"{'unr' if unrestricted else 'acc'}:{gen_kind.split('+')[-1]}:{shape}"


def check_batch(ctx, cases, doc, sl_obs, misclassified, model=True):
    """cases: [(rq, ac, roles, unrestricted, gen_kind)]"""
    reps = ctx.lean([_sx(rq, ac, roles, u, sl_obs) for rq, ac, roles, u, _ in cases]) if model else [None] * len(cases)
    for (rq, ac, roles, u, gk), m in zip(cases, reps):
        case = N.fmt_case(rq, ac, roles, u)
        real = N.real_acceptor(rq, ac, roles, u)
        nontrivial = real[0] == "ok" and (bool(real[2]) or len({r[2] for r in real[1]}) > 1)
        ctx.case(case, nontrivial=nontrivial, kind=_kind(rq, ac, roles, real, gk, u))
        if model:
            mm = N.canon_acc_model(m)
            if mm != real:
                ctx.diff(case, real, mm)
        if N.wellformed(rq, roles):
            for sig, what in N.oracle_c10(rq, ac, roles, u, real, doc, misclassified):
                ctx.fail(sig, what + f"  [unrestricted={u}]", case)


def classification_oracle(ctx):
    """Unrestricted mode: which abstract syntaxes does the real code treat as storage?  Pool UIDs are
    compared with the hand labels; every SOP class pynetdicom itself lists under a NON-storage service
    must not be treated as storage."""
    sl_obs = N.observed_storage_like()
    mis = sorted(set(sl_obs) ^ set(N.STORAGE_LIKE))
    from pynetdicom import sop_class as S

    wrong = []
    storage = set(S._STORAGE_CLASSES.values())
    for name in sorted(dir(S)):
        d = getattr(S, name)
        if name.startswith("_") and name.endswith("_CLASSES") and isinstance(d, dict) and name != "_STORAGE_CLASSES":
            for attr, uid in sorted(d.items()):
                if not isinstance(uid, str) or uid in storage:
                    continue
                from pynetdicom.presentation import build_context, negotiate_unrestricted

                cx = build_context(uid, [N.TS[0]])
                cx.context_id = 1
                res, _ = negotiate_unrestricted([cx], [], {})
                ctx.case(["unrestricted-class", uid], nontrivial=True, kind="unr:classification")
                if res[0].result == 0:
                    wrong.append(f"{uid} ({attr})")
    for a in mis:
        u = N.ABS[a]
        if not any(w.startswith(u + " ") for w in wrong):
            wrong.append(f"{u} (pool label)")
    if wrong:
        ctx.fail(
            "unrestricted:non-storage-sop-class-treated-as-storage",
            "negotiate_unrestricted accepts as storage (result 0, acceptor SCU+SCP, no supported context needed): " + ", ".join(wrong),
            {"unrestricted_single_context": wrong},
        )
    return sl_obs, mis


def small_scope(pmax, smax):
    """exhaustive: <= pmax proposals over 2 abstract syntaxes x 4 transfer-syntax lists, <= smax supported
    contexts x 4 lists x 9 role configurations, every role proposal (none/TT/TF/FT/FF per abstract syntax)"""
    A, B = 2, 6  # Verification (non-storage), CT Image Storage (storage)
    tss = [[0], [1], [0, 1], [1, 0]]
    props = [[]]
    one = [(a, ts) for a in (A, B) for ts in tss]
    for k in range(1, pmax + 1):
        props += [list(x) for x in itertools.product(one, repeat=k)]
    sups = [[]]
    sone = [(None, a, ts, cu, cp) for a in (A, B) for ts in tss for cu, cp in N.CFGS]
    if smax >= 1:
        sups += [[s] for s in sone]
    roles_opts = [None, (True, True), (True, False), (False, True), (False, False)]
    for pr in props:
        rq = [(2 * i + 1, a, ts, None, None) for i, (a, ts) in enumerate(pr)]
        used = sorted({a for a, _ in pr}) or [A]
        for ac in sups:
            for combo in itertools.product(roles_opts, repeat=len(used)):
                roles = [(a, r[0], r[1]) for a, r in zip(used, combo) if r is not None]
                yield rq, ac, roles


def run(ctx):
    ctx.rule = (
        "generated (rq, supported, roles) triples over real UIDs: 0..N contexts (N=20 quick, 128 thorough), distinct odd ids, "
        "shared/disjoint/mixed transfer-syntax lists, duplicate abstract syntaxes on both sides, acceptor roles None/True/False, "
        "role proposals incl. (False, False); every 5th case malformed (duplicate id, empty transfer syntax list, None in a role "
        "pair) for the model's exception branches; both negotiate_as_acceptor and negotiate_unrestricted; plus small-scope "
        "exhaustive enumeration; non-trivial = mixed results or a role item in the answer"
    )
    doc = N.documented_table(ctx)
    # the role table itself, entry by entry, against the documentation
    from pynetdicom.presentation import SCP_SCU_ROLES

    for item in N.ITEMS:
        for cfg in N.CFGS:
            key = item if item else (None, None)
            ctx.case(["table", key, cfg], kind="table-entry")
            try:
                got = SCP_SCU_ROLES[key][cfg]
            except KeyError:
                ctx.fail(f"roles-table:rq={item}:cfg={cfg}", f"SCP_SCU_ROLES has no entry [{key}][{cfg}]", ["table", key, cfg])
                continue
            want = doc[(item, cfg)]
            if want not in N.ACCEPTOR_ROLES or tuple(got) != N.REQUESTOR_ROLES[want] + N.ACCEPTOR_ROLES[want]:
                ctx.fail(f"roles-table:rq={item}:cfg={cfg}", f"SCP_SCU_ROLES[{key}][{cfg}] = {got}, documented outcome: {want}", ["table", key, cfg])
    sl_obs, mis = classification_oracle(ctx)
    # small-scope exhaustive
    cases = []
    for rq, ac, roles in small_scope(1 if ctx.quick else 2, 1):
        cases.append((rq, ac, roles, False, "exhaustive"))
        cases.append((rq, ac, roles, True, "exhaustive"))
    check_batch(ctx, cases, doc, sl_obs, mis)
    ctx.extra["small_scope_cases"] = len(cases)
    # generated
    n = ctx.n(4000, 120000)
    nmax = 20 if ctx.quick else 128
    batch = []
    for k in range(n):
        big = (k % 50 == 0)
        rq, ac, roles, gk = N.gen_case(ctx.rng, nmax if big or ctx.quick else 24, malformed=(k % 5 == 4))
        batch.append((rq, ac, roles, k % 3 == 2, gk))
        if len(batch) >= 4000:
            check_batch(ctx, batch, doc, sl_obs, mis)
            batch = []
    check_batch(ctx, batch, doc, sl_obs, mis)
    # the mode ACSE._negotiate_as_acceptor selects under _config.UNRESTRICTED_STORAGE_SERVICE
    m = ctx.n(150, 3000)
    for k in range(m):
        rq, ac, roles, gk = N.gen_case(ctx.rng, 8)
        if not rq or not N.wellformed(rq, roles):
            continue
        for u in (False, True):
            via = k % 2 == 1  # the supported contexts are set by an EVT_USER_ID handler during negotiation
            a = N.real_acse_mode(rq, ac, roles, u, via_handler=via)
            b = N.real_acceptor(rq, ac, roles, u)
            case = N.fmt_case(rq, ac, roles, u)
            ctx.case(["acse-mode", case, via], kind=f"acse-mode:{'unr' if u else 'acc'}" + (":contexts-set-by-handler" if via else ""))
            if a[0] == "ok" and b[0] == "ok":
                a, b = ["ok", sorted(a[1]), a[2]], ["ok", sorted(b[1]), b[2]]
            if a != b:
                ctx.fail(
                    "acse:wrong-negotiation-mode",
                    f"ACSE._negotiate_as_acceptor with UNRESTRICTED_STORAGE_SERVICE={u}{' (supported contexts set by the EVT_USER_ID handler)' if via else ''} holds {a}, "
                    f"{'negotiate_unrestricted' if u else 'negotiate_as_acceptor'} returns {b}",
                    ["acse-mode", case, via],
                )


def search(ctx):
    """The correspondence or a theorem broke: hunt for an input on which the IMPLEMENTATION violates the
    property (oracle only, no model): deeper small scope + a larger generated batch."""
    doc = N.documented_table(ctx)
    sl_obs = N.observed_storage_like()
    mis = sorted(set(sl_obs) ^ set(N.STORAGE_LIKE))
    cases = []
    for rq, ac, roles in small_scope(2, 1):
        cases.append((rq, ac, roles, False, "search"))
        cases.append((rq, ac, roles, True, "search"))
    for k in range(20000):
        rq, ac, roles, gk = N.gen_case(ctx.rng, 16)
        cases.append((rq, ac, roles, k % 3 == 2, "search"))
    known = {"unrestricted:roles-false-false-accepted", "unrestricted:storage-no-role:acceptor-also-scu"}
    before = len(ctx.failures)
    check_batch(ctx, cases, doc, sl_obs, mis, model=False)
    ctx.note(f"search: {len(cases)} oracle-only cases, {len([f for f in ctx.failures[before:] if f['sig'] not in known])} new failures")


def replay(ctx, case):
    c = case["case"]
    if isinstance(c, list) and c and c[0] == "table":
        from pynetdicom.presentation import SCP_SCU_ROLES

        print("SCP_SCU_ROLES", c[1], c[2], "=", SCP_SCU_ROLES.get(tuple(c[1]), {}).get(tuple(c[2])))
        return 1
    if isinstance(c, dict) and "unrestricted_single_context" in c:
        print("treated as storage by negotiate_unrestricted:", c["unrestricted_single_context"])
        return 1
    if isinstance(c, list) and c and c[0] == "acse-mode":
        via = bool(c[2]) if len(c) > 2 else False
        c = c[1]
        rq, ac, roles, u = [tuple(x) for x in c["rq"]], [tuple(x) for x in c["ac"]], [tuple(x) for x in c["roles"]], c["unrestricted"]
        a, b = N.real_acse_mode(rq, ac, roles, u, via_handler=via), N.real_acceptor(rq, ac, roles, u)
        if a[0] == "ok" and b[0] == "ok":
            a, b = ["ok", sorted(a[1]), a[2]], ["ok", sorted(b[1]), b[2]]
        print(f"UNRESTRICTED_STORAGE_SERVICE={u}")
        print("ACSE._negotiate_as_acceptor holds:", a)
        print("negotiate_unrestricted returns:" if u else "negotiate_as_acceptor returns:", b)
        return 0 if a == b else 1
    rq = [tuple(x) for x in c["rq"]]
    ac = [tuple(x) for x in c["ac"]]
    roles = [tuple(x) for x in c["roles"]]
    u = c["unrestricted"]
    doc = N.documented_table(ctx)
    real = N.real_acceptor(rq, ac, roles, u)
    sl_obs = N.observed_storage_like()
    model = N.canon_acc_model(ctx.lean([_sx(rq, ac, roles, u, sl_obs)])[0])
    print("abstract syntaxes:", {i: N.ABS[i] for i in sorted({x[1] for x in rq})})
    print("proposals (id, abs, ts, -, -):", rq)
    print("supported (-, abs, ts, scu_role, scp_role):", ac)
    print("role proposals (abs, scu, scp):", roles, " unrestricted =", u)
    print("code :", real)
    print("model:", model)
    bad = N.oracle_c10(rq, ac, roles, u, real, doc, sorted(set(sl_obs) ^ set(N.STORAGE_LIKE))) if N.wellformed(rq, roles) else []
    for sig, what in bad:
        print("property clause violated:", sig, "-", what)
    return 1 if bad or real != model else 0
