"""C25 — datasets arrive exactly as sent, for every transfer syntax and storage mode.

(1) function level, vs the Lean `Deliver` model: a C-STORE request with generated data-set bytes is
    encoded by the real `encode_msg` for a generated maximum PDU length, the P-DATA primitives are
    regrouped and fed to the real `decode_msg` with chunked receive on/off, and the real
    `Event.encoded_dataset(False/True)` / `dataset_path` file are compared byte for byte with the
    model (correspondence) and with the original bytes (oracle);
(2) end to end: generated pydicom datasets sent between two real AEs over C-STORE (stream and
    chunked/file send, in-memory and chunked receive), C-FIND (identifier to the handler, response
    identifiers back to the requestor) and N-SET, in four transfer syntaxes and several maximum PDU
    sizes; oracle: what the handler (or the requestor) reads through every accessor equals the
    original after re-encoding both in a canonical syntax.
"""
from harness import poolinit as _e2e_exit
import os
import tempfile
from io import BytesIO


# ---------------------------------------------------------------------------------------------
def fn_case(rng):
    n = rng.choice([1, 2, 7, 8, 100, 1000, 2050, 4090, 9000, 32754])
    d = rng.randbytes(n)
    if n % 2:
        d += b"\x00"
    mx = rng.choice([0, 7, 8, 13, 64, 255, 1000, 1031, 16382, 16383])
    chunked = rng.random() < 0.5
    return d, mx, chunked


def run_fn(rng, d, mx, chunked):
    from pydicom.uid import ExplicitVRLittleEndian
    from pynetdicom import AE, _config, evt
    from pynetdicom.association import Association
    from pynetdicom.dimse_messages import C_STORE_RQ, DIMSEMessage
    from pynetdicom.dimse_primitives import C_STORE
    from pynetdicom.dsutils import encode_file_meta
    from pynetdicom.events import Event
    from pynetdicom.pdu_primitives import P_DATA
    from pynetdicom.presentation import build_context

    p = C_STORE()
    p.MessageID, p.Priority = 7, 2
    p.AffectedSOPClassUID = "1.2.840.10008.5.1.4.1.1.2"
    p.AffectedSOPInstanceUID = "1.2.3.4.5"
    p.DataSet = BytesIO(d)
    m = C_STORE_RQ()
    m.primitive_to_message(p)
    pdvs = [pd.presentation_data_value_list[0] for pd in m.encode_msg(1, mx)]
    frags = [bytes(v[1][1:]) for v in pdvs if v[1][0] & 1 == 0]
    # regroup the PDVs into P-DATA primitives
    groups, i = [], 0
    while i < len(pdvs):
        k = rng.choice([1, 1, 2, 3])
        groups.append(pdvs[i : i + k])
        i += k
    assoc = Association(AE(), "acceptor")
    cx = build_context("1.2.840.10008.5.1.4.1.1.2", ExplicitVRLittleEndian)
    cx.context_id, cx.result = 1, 0
    assoc._accepted_cx = {1: cx}
    old = _config.STORE_RECV_CHUNKED_DATASET
    _config.STORE_RECV_CHUNKED_DATASET = chunked
    rm = DIMSEMessage()
    try:
        done = False
        for g in groups:
            pd = P_DATA()
            pd.presentation_data_value_list = [list(x) for x in g]
            done = rm.decode_msg(pd, assoc)
        prim = rm.message_to_primitive()
        ev = Event(assoc, evt.EVT_C_STORE, {"request": prim, "context": cx.as_tuple})
        raw = ev.encoded_dataset(include_meta=False)
        full = ev.encoded_dataset(include_meta=True)
        file = None
        if chunked:
            path = ev.dataset_path
            file = open(path, "rb").read()
        ev_meta = encode_file_meta(ev.file_meta)
        return dict(done=done, frags=frags, raw=raw, full=full, file=file, ev_meta=ev_meta)
    finally:
        _config.STORE_RECV_CHUNKED_DATASET = old
        f = getattr(rm, "_data_set_file", None) or getattr(locals().get("prim", None), "_dataset_file", None)
        try:
            if f is not None:
                f.close()
                os.unlink(f.name)
        except Exception:
            pass


# ---------------------------------------------------------------------------------------------
# (3) split_dataset vs the Lean `Part10` model
KNOWN_SHORT = [b"UI", b"UL", b"SH", b"AE", b"CS", b"LO", b"US", b"PN", b"DA"]
KNOWN_LONG = [b"OB", b"UN", b"UT", b"SQ", b"UC", b"OW"]


def p10_elem(rng, group=2, kind=None):
    """(bytes, wellformed) of one Explicit-VR-LE element"""
    kind = kind or rng.choice(["short"] * 6 + ["long"] * 3 + ["unknown", "nonletter", "undef", "lowercase"])
    tag = group.to_bytes(2, "little") + rng.choice([0, 1, 2, 3, 0x10, 0x12, 0x13, 0x16, 0x100, 0x102, rng.randrange(65536)]).to_bytes(2, "little")
    n = rng.choice([0, 0, 1, 2, 4, 7, 8, 16, 33, 300])
    val = rng.randbytes(n)
    if kind == "short":
        return tag + rng.choice(KNOWN_SHORT) + n.to_bytes(2, "little") + val, True
    if kind == "long":
        return tag + rng.choice(KNOWN_LONG) + b"\x00\x00" + n.to_bytes(4, "little") + val, True
    if kind == "undef":
        return tag + rng.choice(KNOWN_LONG) + b"\x00\x00" + b"\xff\xff\xff\xff" + val, False
    if kind == "unknown":  # two capitals that are no VR: 16-bit length
        return tag + rng.choice([b"ZZ", b"AB", b"XQ", b"OO"]) + n.to_bytes(2, "little") + val, False
    if kind == "lowercase":  # inside b"AA".."ZZ" lexicographically, not capitals
        return tag + rng.choice([b"Ba", b"Y\x00", b"A\x7f", b"Z\x10"]) + n.to_bytes(2, "little") + val, False
    # bytes 4-5 outside b"AA".."ZZ": read as implicit VR, 32-bit length
    return tag + n.to_bytes(4, "little") + val, False


def p10_dataset(rng):
    """(bytes, satisfies dsStartOk)"""
    k = rng.choice(["empty", "explicit", "explicit", "explicit-long", "implicit", "implicit", "implicit-OB", "short-tail",
                    "long-cut", "delimiter", "group2-implicit", "random"])
    body = rng.randbytes(rng.choice([0, 3, 16, 100]))
    if k == "empty":
        return b"", True
    if k == "explicit":
        return rng.choice([b"\x08\x00", b"\x08\x00", b"\x00\x00", b"\x01\x00", b"\x03\x00", b"\xe0\x7f", b"\x02\x01"]) + rng.choice([b"\x05\x00", b"\x16\x00", b"\x18\x00"]) + rng.choice(KNOWN_SHORT) + len(body).to_bytes(2, "little") + body, True
    if k == "explicit-long":
        return b"\x08\x00\x16\x00" + rng.choice(KNOWN_LONG) + b"\x00\x00" + len(body).to_bytes(4, "little") + body, True
    if k == "implicit":
        n = rng.choice([0, 2, 26, 0x4141, 0x5A5A, 0x0100])
        return b"\x08\x00\x16\x00" + n.to_bytes(4, "little") + body, True
    if k == "implicit-OB":  # an implicit-VR length whose low bytes spell a 32-bit-length VR
        n = int.from_bytes(rng.choice(KNOWN_LONG), "little") + 65536 * rng.choice([0, 1])
        return b"\x08\x00\x16\x00" + n.to_bytes(4, "little") + body + b"\x00" * 4, True
    if k == "short-tail":
        return (b"\x08\x00\x16\x00" + rng.randbytes(8))[: rng.randrange(1, 8)], False
    if k == "long-cut":  # explicit 32-bit-length VR, the length field cut off
        return (b"\x08\x00\x16\x00" + rng.choice(KNOWN_LONG) + b"\x00\x00" + rng.randbytes(4))[: rng.randrange(8, 12)], False
    if k == "delimiter":
        return b"\xfe\xff\x0d\xe0" + rng.choice([b"\x00" * 4, b"OB\x00\x00" + b"\x00" * 4, b"UI\x00\x00"]) + body, False
    if k == "group2-implicit":
        return b"\x02\x00\x10\x00" + len(body).to_bytes(4, "little") + body, False
    return rng.randbytes(rng.choice([8, 9, 12, 40])), False


def p10_case(rng):
    """a file in (or near) the DICOM File Format; returns (file, meta bytes, data-set bytes, claims)"""
    elems, wf = [], True
    style = rng.choice(["wf"] * 6 + ["any"] * 3 + ["nometa"])
    for _ in range(0 if style == "nometa" else rng.choice([1, 1, 2, 3, 6])):
        e, ok = p10_elem(rng, kind=rng.choice(["short", "short", "long"]) if style == "wf" else None)
        elems.append(e)
        wf = wf and ok
    body = b"".join(elems)
    gl = rng.choice(["right", "right", "absent", "wrong"])
    if gl != "absent" and style != "nometa":
        n = len(body) if gl == "right" else rng.choice([0, len(body) + 8, max(0, len(body) - 3), 0xFFFFFFF0])
        body = b"\x02\x00\x00\x00UL\x04\x00" + n.to_bytes(4, "little") + body
    ds, ds_ok = p10_dataset(rng)
    pre = rng.randbytes(128) if rng.random() < 0.5 else b"\x00" * 128
    head = rng.choice(["ok"] * 12 + ["nomagic", "shortfile", "shifted"])
    if head == "ok":
        f = pre + b"DICM" + body + ds
    elif head == "nomagic":
        f, wf = pre + rng.choice([b"DICN", b"dicm", b"\x00" * 4]) + body + ds, False
    elif head == "shortfile":
        f, wf = (pre + b"DICM")[: rng.choice([0, 5, 128, 130, 131])], False
    else:
        f, wf = pre[:127] + b"DICM" + body + ds, False
    cut = None
    if rng.random() < 0.08 and len(f) > 133:
        cut = rng.randrange(132, len(f))
        f, wf = f[:cut], False
    return dict(file=f, meta=body, ds=ds, wf=wf and ds_ok and head == "ok", gl=gl, style=style, head=head, cut=cut is not None)


def run_split(tmpdir, i, data):
    import struct
    import warnings

    from pydicom.errors import InvalidDicomError
    from pynetdicom.dsutils import split_dataset

    path = os.path.join(tmpdir, f"f{i}.dcm")
    with open(path, "wb") as fh:
        fh.write(data)
    try:
        with warnings.catch_warnings():
            warnings.simplefilter("ignore")
            from pathlib import Path

            _, off = split_dataset(Path(path))
        return ["ok", off]
    except InvalidDicomError:
        return "invalid-dicom"
    except struct.error:
        return "struct-error"
    except Exception as exc:
        return "exc:" + type(exc).__name__
    finally:
        os.unlink(path)


# ---------------------------------------------------------------------------------------------
def gen_dataset(rng):
    from pydicom.dataset import Dataset
    from pydicom.sequence import Sequence
    from pydicom.uid import generate_uid

    ds = Dataset()
    ds.SOPClassUID = "1.2.840.10008.5.1.4.1.1.2"
    ds.SOPInstanceUID = generate_uid(entropy_srcs=[str(rng.random())])
    ds.PatientName = rng.choice(["Doe^John", "", "A^B^C^D^E", "Müller^Jörg" if False else "X"])
    ds.PatientID = rng.choice(["", "1", "12345678901234567890"])
    if rng.random() < 0.7:
        ds.StudyDate = rng.choice(["", "20200101"])
        ds.Rows, ds.Columns = rng.randrange(0, 65536), rng.randrange(0, 65536)
        ds.ImagePositionPatient = [rng.uniform(-1000, 1000) for _ in range(3)]
        ds.PatientAge = rng.choice(["", "045Y"])
    if rng.random() < 0.5:
        ds.PatientComments = "x" * rng.choice([0, 1, 2, 1023, 5000])
    if rng.random() < 0.5:
        item = Dataset()
        item.CodeValue, item.CodingSchemeDesignator = "T-1", "SRT"
        inner = Dataset()
        inner.CodeMeaning = "inner"
        item.ConceptNameCodeSequence = Sequence([inner] if rng.random() < 0.5 else [])
        ds.ProcedureCodeSequence = Sequence([item] * rng.choice([0, 1, 2]))
    if rng.random() < 0.4:
        blk = ds.private_block(0x0011, "VERIF PRIVATE", create=True)
        blk.add_new(0x01, "LO", "private value")
        blk.add_new(0x02, "OB", rng.randbytes(rng.choice([0, 1, 2, 777])))
    if rng.random() < 0.5:
        ds.BitsAllocated, ds.PixelRepresentation = 8, 0
        ds.add_new(0x7FE00010, "OB", rng.randbytes(rng.choice([0, 2, 4096, 20000])))
    return ds


def canon(ds, ts=None):
    """canonical bytes of a dataset (group >= 0008) for equality: re-encoded in the transfer syntax it travelled in
    (without deflation). With Implicit VR the VR of private/unknown elements is not on the wire, so equality can only
    be judged in that syntax."""
    from pynetdicom.dsutils import encode

    if ts is None:
        return encode(ds[0x00030000:], False, True)
    return encode(ds[0x00030000:], ts.is_implicit_VR, ts.is_little_endian)


def e2e_case(args):
    """one association: C-STORE (modes), C-FIND, N-SET with generated datasets"""
    import random
    import threading

    seed, ts_name, max_pdu, chunk_recv, chunk_send = args[:5]
    label_name = args[5] if len(args) > 5 else ts_name  # the transfer syntax the dataset's own file meta declares
    from pydicom import dcmread
    from pydicom.dataset import Dataset, FileMetaDataset
    from pydicom import uid as U
    from pynetdicom import AE, _config, evt
    from pynetdicom.sop_class import CTImageStorage, PatientRootQueryRetrieveInformationModelFind as F

    from harness import e2e

    e2e.quiet()
    rng = random.Random(seed)
    ts = getattr(U, ts_name)
    orig = gen_dataset(rng)
    got = {}
    out = {"args": list(args)}

    def h_store(event):
        try:
            got["raw"] = event.encoded_dataset(include_meta=False)
            got["full"] = event.encoded_dataset(include_meta=True)
            got["ds"] = canon(event.dataset, ts)
            if chunk_recv:
                got["file"] = open(event.dataset_path, "rb").read()
                got["file_ds"] = canon(dcmread(event.dataset_path), ts)
        except Exception as exc:
            got["exc"] = repr(exc)
        return 0x0000

    def h_find(event):
        got["ident"] = canon(event.identifier, ts)
        yield 0xFF00, orig
        yield 0x0000, None

    old_r = _config.STORE_RECV_CHUNKED_DATASET
    _config.STORE_RECV_CHUNKED_DATASET = chunk_recv
    ae = AE()
    ae.maximum_pdu_size = max_pdu
    ae.add_supported_context(CTImageStorage, ts)
    ae.add_supported_context(F, ts)
    ae.acse_timeout = ae.dimse_timeout = ae.network_timeout = 10
    srv = ae.start_server(("127.0.0.1", 0), block=False, evt_handlers=[(evt.EVT_C_STORE, h_store), (evt.EVT_C_FIND, h_find)])
    try:
        cl = AE()
        cl.maximum_pdu_size = max_pdu
        cl.add_requested_context(CTImageStorage, ts)
        cl.add_requested_context(F, ts)
        cl.acse_timeout = cl.dimse_timeout = cl.network_timeout = 10
        a = cl.associate("127.0.0.1", srv.socket.getsockname()[1])
        if not a.is_established:
            out["error"] = "not established"
            return out
        from pynetdicom.dsutils import encode

        expected_raw = encode(orig, ts.is_implicit_VR, ts.is_little_endian, ts.is_deflated)
        orig.file_meta = FileMetaDataset()
        orig.file_meta.TransferSyntaxUID = getattr(U, label_name)
        orig.file_meta.MediaStorageSOPClassUID = orig.SOPClassUID
        orig.file_meta.MediaStorageSOPInstanceUID = orig.SOPInstanceUID
        ref = orig
        if chunk_send:
            d = tempfile.mkdtemp(prefix="verif_c25_")
            path = os.path.join(d, "x.dcm")
            orig.save_as(path, enforce_file_format=True)
            # what the sender has to deliver is what the FILE holds: a file written in Implicit VR does not carry the VR of
            # private / unknown elements, so the reference is the data set as read back from it, not the in-memory original
            ref = dcmread(path)
            expected_raw = encode(ref, ts.is_implicit_VR, ts.is_little_endian, ts.is_deflated)
            try:
                st = a.send_c_store(path)
            finally:
                os.unlink(path)
                os.rmdir(d)
        else:
            st = a.send_c_store(orig)
        out["store_status"] = getattr(st, "Status", None) if st else None
        out["expected_raw_len"] = len(expected_raw)
        out["raw_ok"] = got.get("raw") == expected_raw
        out["ds_ok"] = got.get("ds") == canon(ref, ts)
        out["exc"] = got.get("exc")
        if chunk_recv:
            out["file_ds_ok"] = got.get("file_ds") == canon(ref, ts)
            out["file_tail_ok"] = bool(got.get("file")) and got["file"].endswith(expected_raw) and got["file"][:132] == b"\x00" * 128 + b"DICM"
            out["full_ok"] = got.get("full") == got.get("file")
        else:
            out["full_ok"] = bool(got.get("full")) and got["full"].endswith(expected_raw) and got["full"][:132] == b"\x00" * 128 + b"DICM"
        # C-FIND: identifier to the handler, response identifier back
        ident = Dataset()
        ident.QueryRetrieveLevel, ident.PatientName, ident.PatientID = "PATIENT", "*", ""
        rsp = []
        for status, ds in a.send_c_find(ident, F):
            if status and status.Status == 0xFF00:
                rsp.append(canon(ds, ts))
        out["find_ident_ok"] = got.get("ident") == canon(ident, ts)
        out["find_rsp_ok"] = rsp == [canon(orig, ts)]
        a.release()
        return out
    finally:
        _config.STORE_RECV_CHUNKED_DATASET = old_r
        srv.shutdown()


def cget_case(seed):
    """C-GET whose C-STORE sub-operations arrive on SEVERAL presentation contexts of the same SOP class (one per transfer
    syntax): the requestor's EVT_C_STORE handler must see each data set as it was sent, under the syntax it was sent in"""
    import random

    from pydicom import uid as U
    from pydicom.dataset import Dataset, FileMetaDataset
    from pynetdicom import AE, build_role, evt
    from pynetdicom.dsutils import encode
    from pynetdicom.sop_class import CTImageStorage, PatientRootQueryRetrieveInformationModelGet as G

    from harness import e2e

    e2e.quiet()
    rng = random.Random(seed)
    TSS = [U.ImplicitVRLittleEndian, U.ExplicitVRLittleEndian, U.ExplicitVRBigEndian, U.DeflatedExplicitVRLittleEndian]
    rng.shuffle(TSS)
    tss = TSS[: rng.choice([2, 3, 4])]
    origs = []
    for ts in tss:
        ds = gen_dataset(rng)
        ds.file_meta = FileMetaDataset()
        ds.file_meta.TransferSyntaxUID = ts
        ds.file_meta.MediaStorageSOPClassUID, ds.file_meta.MediaStorageSOPInstanceUID = ds.SOPClassUID, ds.SOPInstanceUID
        origs.append(ds)

    def h_get(event):
        yield len(origs)
        for ds in origs:
            yield 0xFF00, ds

    got = []

    def h_store(event):
        ts = event.context.transfer_syntax
        try:
            got.append({"cx": event.context.context_id, "ts": str(ts), "meta_ts": str(event.file_meta.TransferSyntaxUID),
                        "raw": event.encoded_dataset(include_meta=False), "ds": canon(event.dataset, ts)})
        except Exception as exc:
            got.append({"cx": event.context.context_id, "ts": str(ts), "exc": repr(exc)})
        return 0x0000

    ae = AE()
    ae.add_supported_context(G)
    for ts in tss:
        ae.add_supported_context(CTImageStorage, ts, scu_role=True, scp_role=True)
    ae.acse_timeout = ae.dimse_timeout = ae.network_timeout = 10
    srv = ae.start_server(("127.0.0.1", 0), block=False, evt_handlers=[(evt.EVT_C_GET, h_get)])
    out = {"seed": seed, "tss": [t.name for t in tss]}
    try:
        cl = AE()
        cl.add_requested_context(G)
        for ts in tss:
            cl.add_requested_context(CTImageStorage, ts)
        cl.acse_timeout = cl.dimse_timeout = cl.network_timeout = 10
        a = cl.associate("127.0.0.1", srv.socket.getsockname()[1], ext_neg=[build_role(CTImageStorage, scp_role=True)],
                         evt_handlers=[(evt.EVT_C_STORE, h_store)])
        if not a.is_established:
            return {"error": "not established"}
        ident = Dataset()
        ident.QueryRetrieveLevel, ident.PatientID = "PATIENT", "*"
        finals = [getattr(st, "Status", None) for st, _ in a.send_c_get(ident, G) if st]
        a.release()
        out["final"] = finals[-1] if finals else None
        bad = []
        for ds, ts in zip(origs, tss):
            want_raw = encode(ds, ts.is_implicit_VR, ts.is_little_endian, ts.is_deflated)
            g = next((x for x in got if x.get("raw") == want_raw), None)
            if g is None:
                bad.append(f"{ts.name}: no sub-operation delivered these bytes ({[ (x['cx'], x.get('exc')) for x in got]})")
            elif g.get("ts") != str(ts) or g.get("meta_ts") != str(ts) or g.get("ds") != canon(ds, ts):
                bad.append(f"{ts.name}: handled as context {g['cx']} / {g.get('ts')}, file meta says {g.get('meta_ts')}, data set intact={g.get('ds') == canon(ds, ts)}")
        out["bad"] = bad
        out["n"] = len(got)
        return out
    finally:
        srv.shutdown()


def _job(args):
    if args[0] == "cget":
        try:
            return cget_case(args[1])
        except Exception:
            import traceback

            return {"harness_error": traceback.format_exc()[-1200:]}
    import threading

    box = {}

    def body():
        try:
            box["r"] = e2e_case(args)
        except Exception:
            import traceback

            box["r"] = {"args": list(args), "harness_error": traceback.format_exc()[-1500:]}

    th = threading.Thread(target=body, daemon=True)
    th.start()
    th.join(60)
    return box.get("r", {"args": list(args), "hang": True})


def run(ctx):
    import multiprocessing as mp

    ctx.rule = (
        "function level: generated data-set bytes x maximum PDU length x regrouping x storage mode through the real "
        "encode_msg/decode_msg/Event accessors; e2e: generated pydicom datasets (sequences, private block, empty values, "
        "odd-length OB, large text) x 4 transfer syntaxes x max PDU x chunked send/receive; non-trivial = more than one "
        "data fragment or chunked mode"
    )
    ctx.assumptions.append("pydicom's encoder/decoder and zlib are trusted: decoded-dataset equality is observed, not proved")
    # (1) function level
    cases = [fn_case(ctx.rng) for _ in range(ctx.n(300, 6000))]
    reals = []
    for c in cases:
        try:
            reals.append(run_fn(ctx.rng, *c))
        except Exception as exc:  # the real encode/decode/accessor chain raised on a plain C-STORE request
            reals.append(None)
            d, mx, chunked = c
            case = ["deliver", "chunked" if chunked else "memory", len(d), mx, "raised"]
            ctx.case(case + [d[:8]], kind=("chunked" if chunked else "memory") + f":max{mx}")
            ctx.fail("fn-raised:" + type(exc).__name__, f"C-STORE request with {len(d)} data-set bytes at maximum PDU length {mx} "
                     f"({'chunked' if chunked else 'in-memory'} receive): encode_msg -> decode_msg -> Event accessors raised {exc!r}", case)
    kept = [(c, r) for c, r in zip(cases, reals) if r is not None]
    cases, reals = [c for c, _ in kept], [r for _, r in kept]
    reqs = []
    for (d, mx, chunked), r in zip(cases, reals):
        meta_rest = b""
        if chunked and r["file"]:
            gl = int.from_bytes(r["file"][140:144], "little")
            meta_rest = r["file"][144 : 144 + gl]
        reqs.append(["deliver", "chunked" if chunked else "memory", meta_rest, r["frags"], r["ev_meta"]])
    reps = ctx.lean(reqs)
    for (d, mx, chunked), r, q, m in zip(cases, reals, reqs, reps):
        case = ["deliver", "chunked" if chunked else "memory", len(d), mx, len(r["frags"])]
        ctx.case(case + [d[:8]], nontrivial=len(r["frags"]) > 1 or chunked, kind=("chunked" if chunked else "memory") + f":max{mx}")
        m_file = None if m[0] == "none" else m[0]
        if (r["file"], r["raw"], r["full"]) != (m_file, m[1], m[2]):
            ctx.diff(case, [len(r["file"] or b""), len(r["raw"]), len(r["full"])], [len(m_file or b""), len(m[1]), len(m[2])])
        if not r["done"] or r["raw"] != d or b"".join(r["frags"]) != d:
            ctx.fail("raw-bytes-differ:" + ("chunked" if chunked else "memory"), f"encoded_dataset(False) returned {len(r['raw'])} bytes, sent {len(d)} (max {mx})", case)
        if chunked and not (r["file"][:132] == b"\x00" * 128 + b"DICM" and r["file"].endswith(d) and r["full"] == r["file"]):
            ctx.fail("chunked-file-layout", f"file layout / encoded_dataset(True) wrong (max {mx}, {len(d)} bytes)", case)
    # (3) split_dataset: the offset chunked SEND starts reading at, vs the Lean element walk
    from pydicom import config as _pc

    if not (_pc.assume_implicit_vr_switch and _pc.settings.reading_validation_mode == _pc.WARN):
        ctx.note("pydicom configuration is not the default one the Part10 model assumes")
    p10 = [p10_case(ctx.rng) for _ in range(ctx.n(1500, 30000))]
    # the witnesses of C25_split_group_length_unused / _short_tail_neg / _unknown_vr_neg, replayed on the real code
    pre0 = b"\x00" * 128 + b"DICM"
    directed = [
        (pre0 + bytes([2, 0, 0, 0, 0x55, 0x4C, 4, 0, 0, 0, 0, 0]) + bytes([2, 0, 0x10, 0, 0x55, 0x49, 2, 0, 0x31, 0])
         + bytes([8, 0, 0x16, 0, 0x55, 0x49, 0, 0]), ["ok", 154], "group-length-says-0"),
        (pre0 + bytes([2, 0, 0x10, 0, 0x55, 0x49, 0, 0]) + bytes([8, 0, 0x16]), ["ok", 143], "tail-shorter-than-a-header"),
        (pre0 + bytes([2, 0, 0x10, 0, 0x5A, 0x5A, 9, 0]) + bytes([8, 0, 0x16, 0, 0x55, 0x49, 0, 0]), ["ok", 148], "unknown-VR-ZZ"),
    ]
    with tempfile.TemporaryDirectory(prefix="verif_c25_") as td:
        for i, (f, want, name) in enumerate(directed):
            got = run_split(td, 10**6 + i, f)
            ctx.case(["split-directed", name], kind="split:directed:" + name)
            if got != want:
                ctx.diff(["split-directed", name, f], got, want, "split_dataset differs from the kernel-checked witness")
    with tempfile.TemporaryDirectory(prefix="verif_c25_") as td:
        p10_real = [run_split(td, i, c["file"]) for i, c in enumerate(p10)]
    p10_model = ctx.lean([["part10.split", c["file"]] for c in p10])
    for c, r, m in zip(p10, p10_real, p10_model):
        case = ["split", c["file"]]
        kind = f"split:{c['style']}:gl-{c['gl']}:{c['head']}" + (":cut" if c["cut"] else "") + (":wf" if c["wf"] else "")
        ctx.case(["split", c["style"], c["gl"], c["head"], c["cut"], len(c["meta"]), len(c["ds"]), c["file"][132:148]],
                 nontrivial=c["head"] == "ok" and len(c["meta"]) > 0, kind=kind)
        ctx.hist["split-result:" + (r[0] if isinstance(r, list) else r)] += 1
        if m == "undefined-length":
            ctx.hist["split:outside-model(undefined length in group 0002)"] += 1
        elif r != m:
            ctx.diff(case, r, m, "split_dataset and the Part10 model disagree")
        if c["wf"]:
            want = 132 + len(c["meta"])
            if r != ["ok", want] or c["file"][want:] != c["ds"]:
                ctx.fail("split:offset-not-at-end-of-meta", f"split_dataset returned {r}, the data set starts at {want} "
                         f"(group length {c['gl']}, {len(c['ds'])} data-set bytes): chunked send would put "
                         f"{'other' if isinstance(r, list) else 'no'} bytes on the wire", case)
    # (2) end to end
    jobs = []
    TS = ["ImplicitVRLittleEndian", "ExplicitVRLittleEndian", "ExplicitVRBigEndian", "DeflatedExplicitVRLittleEndian"]
    for i in range(ctx.n(24, 600)):
        ts_name = TS[i % 4]
        # the dataset's own label: the accepted context's syntax, or another one send_c_store converts from
        # (uncompressed little endian <-> deflated <-> implicit; big endian only to itself)
        label = ts_name
        if ts_name != "ExplicitVRBigEndian" and ctx.rng.random() < 0.5:
            label = ctx.rng.choice([t for t in TS if t not in (ts_name, "ExplicitVRBigEndian")])
        jobs.append((ctx.rng.getrandbits(30), ts_name, ctx.rng.choice([0, 1024, 4096, 16382]),
                     ctx.rng.random() < 0.5, ctx.rng.random() < 0.4, label))
    cjobs = [("cget", ctx.rng.getrandbits(30)) for _ in range(ctx.n(6, 120))]
    pool = mp.get_context("fork").Pool(processes=12, maxtasksperchild=10, initializer=_e2e_exit.no_join_at_exit)
    try:
        results = pool.map(_job, jobs, chunksize=1)
        cresults = pool.map(_job, cjobs, chunksize=1)
    finally:
        pool.terminate()
        pool.join()
    for job, r in zip(cjobs, cresults):
        case = ["cget", job[1]]
        ctx.case(case, nontrivial=True, kind="cget:sub-operations-on-several-contexts")
        if "harness_error" in r or "error" in r:
            ctx.diff(case, r, "n/a", "scenario harness failed")
        elif r["bad"] or r["n"] != len(r["tss"]):
            ctx.fail("cget:sub-operation-dataset-under-wrong-context", f"C-GET with CT Image Storage accepted under {r['tss']}: {r['bad']} ({r['n']} sub-operations handled)", case)
    for job, r in zip(jobs, results):
        case = ["e2e", *job]
        ctx.case(case, kind=f"e2e:{job[1]}:recv{'C' if job[3] else 'M'}:send{'C' if job[4] else 'S'}" + (":converted" if job[5] != job[1] else ""))
        if r.get("hang") or "harness_error" in r or r.get("error"):
            ctx.diff(case, r, "n/a", "scenario harness failed")
            continue
        for k in ("raw_ok", "ds_ok", "full_ok", "file_ds_ok", "file_tail_ok", "find_ident_ok", "find_rsp_ok"):
            if k in r and not r[k]:
                ctx.fail(f"e2e:{k[:-3]}:{'chunked-recv' if job[3] else 'memory-recv'}", f"{k} failed for {job}: {r}", case)
        if r.get("exc"):
            ctx.fail("e2e:accessor-raised", f"{r['exc']} for {job}", case)


def replay(ctx, case):
    c = case["case"]
    if c[0] == "e2e":
        print(_job(tuple(c[1:])))
    elif c[0] == "cget":
        r = cget_case(c[1])
        print(r)
        return 1 if r.get("bad") else 0
    else:
        print(c)
    return 0
