"""C25 — datasets arrive exactly as sent, for every transfer syntax and storage mode.

(1) function level, vs the Lean `Deliver` model: a C-STORE request with generated data-set bytes is
    encoded by the real `encode_msg` for a generated maximum PDU length, the P-DATA primitives are
    regrouped and fed to the real `decode_msg` with chunked receive on/off, and the real
    `Event.encoded_dataset(False/True)` / `dataset_path` file are compared byte for byte with the
    model (correspondence) and with the original bytes (oracle);
(2) end to end: generated pydicom datasets sent between two real AEs over C-STORE (stream and
    chunked/file send, in-memory and chunked receive), C-FIND (identifier to the handler, response
    identifiers back to the requestor) and N-SET, in four transfer syntaxes and several maximum PDU
    sizes; oracle: what the handler (or the requestor) reads through every accessor equals the
    original after re-encoding both in a canonical syntax.
"""
from harness import poolinit as _e2e_exit
import os
import tempfile
from io import BytesIO


# ---------------------------------------------------------------------------------------------
def fn_case(rng):
    n = rng.choice([1, 2, 7, 8, 100, 1000, 4090, 9000])
    d = rng.randbytes(n)
    if n % 2:
        d += b"\x00"
    mx = rng.choice([0, 7, 8, 13, 64, 1000, 16382])
    chunked = rng.random() < 0.5
    return d, mx, chunked


def run_fn(rng, d, mx, chunked):
    from pydicom.uid import ExplicitVRLittleEndian
    from pynetdicom import AE, _config, evt
    from pynetdicom.association import Association
    from pynetdicom.dimse_messages import C_STORE_RQ, DIMSEMessage
    from pynetdicom.dimse_primitives import C_STORE
    from pynetdicom.dsutils import encode_file_meta
    from pynetdicom.events import Event
    from pynetdicom.pdu_primitives import P_DATA
    from pynetdicom.presentation import build_context

    p = C_STORE()
    p.MessageID, p.Priority = 7, 2
    p.AffectedSOPClassUID = "1.2.840.10008.5.1.4.1.1.2"
    p.AffectedSOPInstanceUID = "1.2.3.4.5"
    p.DataSet = BytesIO(d)
    m = C_STORE_RQ()
    m.primitive_to_message(p)
    pdvs = [pd.presentation_data_value_list[0] for pd in m.encode_msg(1, mx)]
    frags = [bytes(v[1][1:]) for v in pdvs if v[1][0] & 1 == 0]
    # regroup the PDVs into P-DATA primitives
    groups, i = [], 0
    while i < len(pdvs):
        k = rng.choice([1, 1, 2, 3])
        groups.append(pdvs[i : i + k])
        i += k
    assoc = Association(AE(), "acceptor")
    cx = build_context("1.2.840.10008.5.1.4.1.1.2", ExplicitVRLittleEndian)
    cx.context_id, cx.result = 1, 0
    assoc._accepted_cx = {1: cx}
    old = _config.STORE_RECV_CHUNKED_DATASET
    _config.STORE_RECV_CHUNKED_DATASET = chunked
    rm = DIMSEMessage()
    try:
        done = False
        for g in groups:
            pd = P_DATA()
            pd.presentation_data_value_list = [list(x) for x in g]
            done = rm.decode_msg(pd, assoc)
        prim = rm.message_to_primitive()
        ev = Event(assoc, evt.EVT_C_STORE, {"request": prim, "context": cx.as_tuple})
        raw = ev.encoded_dataset(include_meta=False)
        full = ev.encoded_dataset(include_meta=True)
        file = None
        if chunked:
            path = ev.dataset_path
            file = open(path, "rb").read()
        ev_meta = encode_file_meta(ev.file_meta)
        return dict(done=done, frags=frags, raw=raw, full=full, file=file, ev_meta=ev_meta)
    finally:
        _config.STORE_RECV_CHUNKED_DATASET = old
        f = getattr(rm, "_data_set_file", None) or getattr(locals().get("prim", None), "_dataset_file", None)
        try:
            if f is not None:
                f.close()
                os.unlink(f.name)
        except Exception:
            pass


# ---------------------------------------------------------------------------------------------
def gen_dataset(rng):
    from pydicom.dataset import Dataset
    from pydicom.sequence import Sequence
    from pydicom.uid import generate_uid

    ds = Dataset()
    ds.SOPClassUID = "1.2.840.10008.5.1.4.1.1.2"
    ds.SOPInstanceUID = generate_uid(entropy_srcs=[str(rng.random())])
    ds.PatientName = rng.choice(["Doe^John", "", "A^B^C^D^E", "Müller^Jörg" if False else "X"])
    ds.PatientID = rng.choice(["", "1", "12345678901234567890"])
    if rng.random() < 0.7:
        ds.StudyDate = rng.choice(["", "20200101"])
        ds.Rows, ds.Columns = rng.randrange(0, 65536), rng.randrange(0, 65536)
        ds.ImagePositionPatient = [rng.uniform(-1000, 1000) for _ in range(3)]
        ds.PatientAge = rng.choice(["", "045Y"])
    if rng.random() < 0.5:
        ds.PatientComments = "x" * rng.choice([0, 1, 2, 1023, 5000])
    if rng.random() < 0.5:
        item = Dataset()
        item.CodeValue, item.CodingSchemeDesignator = "T-1", "SRT"
        inner = Dataset()
        inner.CodeMeaning = "inner"
        item.ConceptNameCodeSequence = Sequence([inner] if rng.random() < 0.5 else [])
        ds.ProcedureCodeSequence = Sequence([item] * rng.choice([0, 1, 2]))
    if rng.random() < 0.4:
        blk = ds.private_block(0x0011, "VERIF PRIVATE", create=True)
        blk.add_new(0x01, "LO", "private value")
        blk.add_new(0x02, "OB", rng.randbytes(rng.choice([0, 1, 2, 777])))
    if rng.random() < 0.5:
        ds.BitsAllocated, ds.PixelRepresentation = 8, 0
        ds.add_new(0x7FE00010, "OB", rng.randbytes(rng.choice([0, 2, 4096, 20000])))
    return ds


def canon(ds, ts=None):
    """canonical bytes of a dataset (group >= 0008) for equality: re-encoded in the transfer syntax it travelled in
    (without deflation). With Implicit VR the VR of private/unknown elements is not on the wire, so equality can only
    be judged in that syntax."""
    from pynetdicom.dsutils import encode

    if ts is None:
        return encode(ds[0x00030000:], False, True)
    return encode(ds[0x00030000:], ts.is_implicit_VR, ts.is_little_endian)


def e2e_case(args):
    """one association: C-STORE (modes), C-FIND, N-SET with generated datasets"""
    import random
    import threading

    seed, ts_name, max_pdu, chunk_recv, chunk_send = args[:5]
    label_name = args[5] if len(args) > 5 else ts_name  # the transfer syntax the dataset's own file meta declares
    from pydicom import dcmread
    from pydicom.dataset import Dataset, FileMetaDataset
    from pydicom import uid as U
    from pynetdicom import AE, _config, evt
    from pynetdicom.sop_class import CTImageStorage, PatientRootQueryRetrieveInformationModelFind as F

    from harness import e2e

    e2e.quiet()
    rng = random.Random(seed)
    ts = getattr(U, ts_name)
    orig = gen_dataset(rng)
    got = {}
    out = {"args": list(args)}

    def h_store(event):
        try:
            got["raw"] = event.encoded_dataset(include_meta=False)
            got["full"] = event.encoded_dataset(include_meta=True)
            got["ds"] = canon(event.dataset, ts)
            if chunk_recv:
                got["file"] = open(event.dataset_path, "rb").read()
                got["file_ds"] = canon(dcmread(event.dataset_path), ts)
        except Exception as exc:
            got["exc"] = repr(exc)
        return 0x0000

    def h_find(event):
        got["ident"] = canon(event.identifier, ts)
        yield 0xFF00, orig
        yield 0x0000, None

    old_r = _config.STORE_RECV_CHUNKED_DATASET
    _config.STORE_RECV_CHUNKED_DATASET = chunk_recv
    ae = AE()
    ae.maximum_pdu_size = max_pdu
    ae.add_supported_context(CTImageStorage, ts)
    ae.add_supported_context(F, ts)
    ae.acse_timeout = ae.dimse_timeout = ae.network_timeout = 10
    srv = ae.start_server(("127.0.0.1", 0), block=False, evt_handlers=[(evt.EVT_C_STORE, h_store), (evt.EVT_C_FIND, h_find)])
    try:
        cl = AE()
        cl.maximum_pdu_size = max_pdu
        cl.add_requested_context(CTImageStorage, ts)
        cl.add_requested_context(F, ts)
        cl.acse_timeout = cl.dimse_timeout = cl.network_timeout = 10
        a = cl.associate("127.0.0.1", srv.socket.getsockname()[1])
        if not a.is_established:
            out["error"] = "not established"
            return out
        from pynetdicom.dsutils import encode

        expected_raw = encode(orig, ts.is_implicit_VR, ts.is_little_endian, ts.is_deflated)
        orig.file_meta = FileMetaDataset()
        orig.file_meta.TransferSyntaxUID = getattr(U, label_name)
        orig.file_meta.MediaStorageSOPClassUID = orig.SOPClassUID
        orig.file_meta.MediaStorageSOPInstanceUID = orig.SOPInstanceUID
        ref = orig
        if chunk_send:
            d = tempfile.mkdtemp(prefix="verif_c25_")
            path = os.path.join(d, "x.dcm")
            orig.save_as(path, enforce_file_format=True)
            # what the sender has to deliver is what the FILE holds: a file written in Implicit VR does not carry the VR of
            # private / unknown elements, so the reference is the data set as read back from it, not the in-memory original
            ref = dcmread(path)
            expected_raw = encode(ref, ts.is_implicit_VR, ts.is_little_endian, ts.is_deflated)
            try:
                st = a.send_c_store(path)
            finally:
                os.unlink(path)
                os.rmdir(d)
        else:
            st = a.send_c_store(orig)
        out["store_status"] = getattr(st, "Status", None) if st else None
        out["expected_raw_len"] = len(expected_raw)
        out["raw_ok"] = got.get("raw") == expected_raw
        out["ds_ok"] = got.get("ds") == canon(ref, ts)
        out["exc"] = got.get("exc")
        if chunk_recv:
            out["file_ds_ok"] = got.get("file_ds") == canon(ref, ts)
            out["file_tail_ok"] = bool(got.get("file")) and got["file"].endswith(expected_raw) and got["file"][:132] == b"\x00" * 128 + b"DICM"
            out["full_ok"] = got.get("full") == got.get("file")
        else:
            out["full_ok"] = bool(got.get("full")) and got["full"].endswith(expected_raw) and got["full"][:132] == b"\x00" * 128 + b"DICM"
        # C-FIND: identifier to the handler, response identifier back
        ident = Dataset()
        ident.QueryRetrieveLevel, ident.PatientName, ident.PatientID = "PATIENT", "*", ""
        rsp = []
        for status, ds in a.send_c_find(ident, F):
            if status and status.Status == 0xFF00:
                rsp.append(canon(ds, ts))
        out["find_ident_ok"] = got.get("ident") == canon(ident, ts)
        out["find_rsp_ok"] = rsp == [canon(orig, ts)]
        a.release()
        return out
    finally:
        _config.STORE_RECV_CHUNKED_DATASET = old_r
        srv.shutdown()


def cget_case(seed):
    """C-GET whose C-STORE sub-operations arrive on SEVERAL presentation contexts of the same SOP class (one per transfer
    syntax): the requestor's EVT_C_STORE handler must see each data set as it was sent, under the syntax it was sent in"""
    import random

    from pydicom import uid as U
    from pydicom.dataset import Dataset, FileMetaDataset
    from pynetdicom import AE, build_role, evt
    from pynetdicom.dsutils import encode
    from pynetdicom.sop_class import CTImageStorage, PatientRootQueryRetrieveInformationModelGet as G

    from harness import e2e

    e2e.quiet()
    rng = random.Random(seed)
    TSS = [U.ImplicitVRLittleEndian, U.ExplicitVRLittleEndian, U.ExplicitVRBigEndian, U.DeflatedExplicitVRLittleEndian]
    rng.shuffle(TSS)
    tss = TSS[: rng.choice([2, 3, 4])]
    origs = []
    for ts in tss:
        ds = gen_dataset(rng)
        ds.file_meta = FileMetaDataset()
        ds.file_meta.TransferSyntaxUID = ts
        ds.file_meta.MediaStorageSOPClassUID, ds.file_meta.MediaStorageSOPInstanceUID = ds.SOPClassUID, ds.SOPInstanceUID
        origs.append(ds)

    def h_get(event):
        yield len(origs)
        for ds in origs:
            yield 0xFF00, ds

    got = []

    def h_store(event):
        ts = event.context.transfer_syntax
        try:
            got.append({"cx": event.context.context_id, "ts": str(ts), "meta_ts": str(event.file_meta.TransferSyntaxUID),
                        "raw": event.encoded_dataset(include_meta=False), "ds": canon(event.dataset, ts)})
        except Exception as exc:
            got.append({"cx": event.context.context_id, "ts": str(ts), "exc": repr(exc)})
        return 0x0000

    ae = AE()
    ae.add_supported_context(G)
    for ts in tss:
        ae.add_supported_context(CTImageStorage, ts, scu_role=True, scp_role=True)
    ae.acse_timeout = ae.dimse_timeout = ae.network_timeout = 10
    srv = ae.start_server(("127.0.0.1", 0), block=False, evt_handlers=[(evt.EVT_C_GET, h_get)])
    out = {"seed": seed, "tss": [t.name for t in tss]}
    try:
        cl = AE()
        cl.add_requested_context(G)
        for ts in tss:
            cl.add_requested_context(CTImageStorage, ts)
        cl.acse_timeout = cl.dimse_timeout = cl.network_timeout = 10
        a = cl.associate("127.0.0.1", srv.socket.getsockname()[1], ext_neg=[build_role(CTImageStorage, scp_role=True)],
                         evt_handlers=[(evt.EVT_C_STORE, h_store)])
        if not a.is_established:
            return {"error": "not established"}
        ident = Dataset()
        ident.QueryRetrieveLevel, ident.PatientID = "PATIENT", "*"
        finals = [getattr(st, "Status", None) for st, _ in a.send_c_get(ident, G) if st]
        a.release()
        out["final"] = finals[-1] if finals else None
        bad = []
        for ds, ts in zip(origs, tss):
            want_raw = encode(ds, ts.is_implicit_VR, ts.is_little_endian, ts.is_deflated)
            g = next((x for x in got if x.get("raw") == want_raw), None)
            if g is None:
                bad.append(f"{ts.name}: no sub-operation delivered these bytes ({[ (x['cx'], x.get('exc')) for x in got]})")
            elif g.get("ts") != str(ts) or g.get("meta_ts") != str(ts) or g.get("ds") != canon(ds, ts):
                bad.append(f"{ts.name}: handled as context {g['cx']} / {g.get('ts')}, file meta says {g.get('meta_ts')}, data set intact={g.get('ds') == canon(ds, ts)}")
        out["bad"] = bad
        out["n"] = len(got)
        return out
    finally:
        srv.shutdown()


def _job(args):
    if args[0] == "cget":
        try:
            return cget_case(args[1])
        except Exception:
            import traceback

            return {"harness_error": traceback.format_exc()[-1200:]}
    import threading

    box = {}

    def body():
        try:
            box["r"] = e2e_case(args)
        except Exception:
            import traceback

            box["r"] = {"args": list(args), "harness_error": traceback.format_exc()[-1500:]}

    th = threading.Thread(target=body, daemon=True)
    th.start()
    th.join(60)
    return box.get("r", {"args": list(args), "hang": True})


def run(ctx):
    import multiprocessing as mp

    ctx.rule = (
        "function level: generated data-set bytes x maximum PDU length x regrouping x storage mode through the real "
        "encode_msg/decode_msg/Event accessors; e2e: generated pydicom datasets (sequences, private block, empty values, "
        "odd-length OB, large text) x 4 transfer syntaxes x max PDU x chunked send/receive; non-trivial = more than one "
        "data fragment or chunked mode"
    )
    ctx.assumptions.append("pydicom's encoder/decoder and zlib are trusted: decoded-dataset equality is observed, not proved")
    # (1) function level
    cases = [fn_case(ctx.rng) for _ in range(ctx.n(300, 6000))]
    reals = [run_fn(ctx.rng, *c) for c in cases]
    reqs = []
    for (d, mx, chunked), r in zip(cases, reals):
        meta_rest = b""
        if chunked and r["file"]:
            gl = int.from_bytes(r["file"][140:144], "little")
            meta_rest = r["file"][144 : 144 + gl]
        reqs.append(["deliver", "chunked" if chunked else "memory", meta_rest, r["frags"], r["ev_meta"]])
    reps = ctx.lean(reqs)
    for (d, mx, chunked), r, q, m in zip(cases, reals, reqs, reps):
        case = ["deliver", "chunked" if chunked else "memory", len(d), mx, len(r["frags"])]
        ctx.case(case + [d[:8]], nontrivial=len(r["frags"]) > 1 or chunked, kind=("chunked" if chunked else "memory") + f":max{mx}")
        m_file = None if m[0] == "none" else m[0]
        if (r["file"], r["raw"], r["full"]) != (m_file, m[1], m[2]):
            ctx.diff(case, [len(r["file"] or b""), len(r["raw"]), len(r["full"])], [len(m_file or b""), len(m[1]), len(m[2])])
        if not r["done"] or r["raw"] != d or b"".join(r["frags"]) != d:
            ctx.fail("raw-bytes-differ:" + ("chunked" if chunked else "memory"), f"encoded_dataset(False) returned {len(r['raw'])} bytes, sent {len(d)} (max {mx})", case)
        if chunked and not (r["file"][:132] == b"\x00" * 128 + b"DICM" and r["file"].endswith(d) and r["full"] == r["file"]):
            ctx.fail("chunked-file-layout", f"file layout / encoded_dataset(True) wrong (max {mx}, {len(d)} bytes)", case)
    # (2) end to end
    jobs = []
    TS = ["ImplicitVRLittleEndian", "ExplicitVRLittleEndian", "ExplicitVRBigEndian", "DeflatedExplicitVRLittleEndian"]
    for i in range(ctx.n(24, 600)):
        ts_name = TS[i % 4]
        # the dataset's own label: the accepted context's syntax, or another one send_c_store converts from
        # (uncompressed little endian <-> deflated <-> implicit; big endian only to itself)
        label = ts_name
        if ts_name != "ExplicitVRBigEndian" and ctx.rng.random() < 0.5:
            label = ctx.rng.choice([t for t in TS if t not in (ts_name, "ExplicitVRBigEndian")])
        jobs.append((ctx.rng.getrandbits(30), ts_name, ctx.rng.choice([0, 1024, 4096, 16382]),
                     ctx.rng.random() < 0.5, ctx.rng.random() < 0.4, label))
    cjobs = [("cget", ctx.rng.getrandbits(30)) for _ in range(ctx.n(6, 120))]
    pool = mp.get_context("fork").Pool(processes=12, maxtasksperchild=10, initializer=_e2e_exit.no_join_at_exit)
    try:
        results = pool.map(_job, jobs, chunksize=1)
        cresults = pool.map(_job, cjobs, chunksize=1)
    finally:
        pool.terminate()
        pool.join()
    for job, r in zip(cjobs, cresults):
        case = ["cget", job[1]]
        ctx.case(case, nontrivial=True, kind="cget:sub-operations-on-several-contexts")
        if "harness_error" in r or "error" in r:
            ctx.diff(case, r, "n/a", "scenario harness failed")
        elif r["bad"] or r["n"] != len(r["tss"]):
            ctx.fail("cget:sub-operation-dataset-under-wrong-context", f"C-GET with CT Image Storage accepted under {r['tss']}: {r['bad']} ({r['n']} sub-operations handled)", case)
    for job, r in zip(jobs, results):
        case = ["e2e", *job]
        ctx.case(case, kind=f"e2e:{job[1]}:recv{'C' if job[3] else 'M'}:send{'C' if job[4] else 'S'}" + (":converted" if job[5] != job[1] else ""))
        if r.get("hang") or "harness_error" in r or r.get("error"):
            ctx.diff(case, r, "n/a", "scenario harness failed")
            continue
        for k in ("raw_ok", "ds_ok", "full_ok", "file_ds_ok", "file_tail_ok", "find_ident_ok", "find_rsp_ok"):
            if k in r and not r[k]:
                ctx.fail(f"e2e:{k[:-3]}:{'chunked-recv' if job[3] else 'memory-recv'}", f"{k} failed for {job}: {r}", case)
        if r.get("exc"):
            ctx.fail("e2e:accessor-raised", f"{r['exc']} for {job}", case)


def replay(ctx, case):
    c = case["case"]
    if c[0] == "e2e":
        print(_job(tuple(c[1:])))
    elif c[0] == "cget":
        r = cget_case(c[1])
        print(r)
        return 1 if r.get("bad") else 0
    else:
        print(c)
    return 0
