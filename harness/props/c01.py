"""C01 — every PDU value survives encode/decode and matches the PS3.8 byte layout.

Real side: pynetdicom's own PDU / item / primitive classes (values built through
their public setters, so only API-accepted values), `encode()`, `decode()`,
`to_primitive()`, `from_primitive()`.
Model side: Lean `encode` (written from the PS3.8 / PS3.7 tables), `decode`
(mirror of the code), `toPrim`/`fromPrim`, `wf`, `lengthsExact` through pvdriver.

Oracles on the implementation alone (ctx.fail): for a well-formed value the bytes
are exactly the bytes the tables prescribe (= Lean `encode`), every length field
is exact (independent Python walker), decoding gives back the (canonical) value,
`to_primitive()` accepts it, and primitive -> PDU -> bytes -> PDU -> primitive is
the identity up to AE-title padding.
Correspondence (ctx.diff): Lean `decode`/`toPrim`/`fromPrim`/`lengthsExact`/`encode`
(also on API-accepted values that are not well-formed) agree with the code.
"""
from __future__ import annotations

import contextlib
import importlib.util
import logging
import os
import signal
import struct

from harness import pdu_gen as G
from harness import pdu_terms as T
from harness.common import REPO

try:
    from translate import pdu_layout as _layout

    GEN = [_layout.generate]
except Exception:  # pragma: no cover
    GEN = []

LEVEL = "proof"
API_ERRORS = (ValueError, TypeError, AttributeError, struct.error, AssertionError, KeyError, IndexError,
              UnicodeError)


def _quiet():
    logging.getLogger("pynetdicom").setLevel(logging.CRITICAL + 1)
    import warnings

    warnings.simplefilter("ignore")


class Hang(Exception):
    pass


def _alarm(signum, frame):
    raise Hang()


@contextlib.contextmanager
def guard(seconds=10.0):
    """a codec call that does not return is reported (as an exception named Hang), not waited for"""
    signal.signal(signal.SIGALRM, _alarm)
    signal.setitimer(signal.ITIMER_REAL, seconds)
    try:
        yield
    finally:
        signal.setitimer(signal.ITIMER_REAL, 0)


def pdu_class(first_byte):
    from pynetdicom import pdu

    return {1: pdu.A_ASSOCIATE_RQ, 2: pdu.A_ASSOCIATE_AC, 3: pdu.A_ASSOCIATE_RJ, 4: pdu.P_DATA_TF,
            5: pdu.A_RELEASE_RQ, 6: pdu.A_RELEASE_RP, 7: pdu.A_ABORT_RQ}[first_byte]


def real_decode(b):
    p = pdu_class(b[0])()
    p.decode(b)
    return p


def py_strip(b: bytes) -> bytes:
    return b.decode("latin-1").strip().encode("latin-1")


def py_canon(t):
    if t[0] in ("rq", "ac"):
        return [t[0], t[1], py_strip(t[2]), py_strip(t[3]), t[4]]
    return t


def py_canon_prim(t):
    if t[0] in ("assocrq", "assocac"):
        return [t[0], py_strip(t[1]), py_strip(t[2]), *t[3:]]
    return t


def norm(t):
    """Lean prim replies: symbols none/T/F -> None/True/False"""
    if isinstance(t, list):
        return [norm(x) for x in t]
    if isinstance(t, str):
        return {"none": None, "T": True, "F": False}.get(t, t)
    return t


def diff_path(a, b, path=""):
    """path of the first difference between two terms (for stable signatures)"""
    if type(a) is not type(b):
        return path or "/"
    if isinstance(a, list):
        tag = a[0] if a and isinstance(a[0], str) else None
        if tag is not None and (not b or b[0] != tag):
            return path + "/" + str(tag)
        p = path + ("/" + tag if tag else "")
        if len(a) != len(b):
            return p + "#len"
        for x, y in zip(a, b):
            if x != y:
                return diff_path(x, y, p)
        return ""
    return "" if a == b else (path or "/")


def kinds_of(t):
    out = {t[0]}
    if t[0] in ("rq", "ac"):
        for it in t[4]:
            out.add(it[0])
            if it[0] == "ui":
                out.update(s[0] for s in it[1])
    return out


def histogram_kind(t, wf):
    k = t[0]
    if k in ("rq", "ac"):
        ks = kinds_of(t)
        extra = [x for x in ("role", "uidrq", "uidac", "common", "sopext") if x in ks]
        k += "+" + (extra[0] if extra else "basic")
    return k + ("" if wf else ":api-only")


# --------------------------------------------------------------------------
# one case on the real code
# --------------------------------------------------------------------------
def real_pdu_case(term):
    """Build the PDU through the API and observe encode / decode / to_primitive."""
    out = {"gen": term}
    try:
        obj = T.pdu_from_term(term)
        out["term"] = T.pdu_to_term(obj)
    except API_ERRORS as e:
        out["rejected"] = type(e).__name__
        return out
    try:
        with guard():
            out["bytes"] = obj.encode()
    except Exception as e:  # noqa
        out["encode_exc"] = type(e).__name__
        return out
    try:
        with guard():
            dec = real_decode(out["bytes"])
        out["dec"] = T.pdu_to_term(dec)
    except T.LevelViolation:
        out["dec"] = "level"
    except Exception as e:  # noqa
        out["dec_exc"] = type(e).__name__
        return out
    try:
        prim = dec.to_primitive()
        out["prim"] = T.prim_to_term(prim, {"rq": "rq", "ac": "ac", "rj": "rj"}.get(term[0]))
    except Exception as e:  # noqa
        out["prim_exc"] = type(e).__name__
    out["lengths"] = T.lengths_exact(out["bytes"])
    return out


def real_prim_case(pterm):
    from pynetdicom import pdu

    out = {"gen": pterm}
    try:
        a = T.prim_from_term(pterm)
        out["pterm"] = T.prim_to_term(a, {"assocrq": "rq", "assocac": "ac", "assocrj": "rj"}.get(pterm[0]))
        obj = getattr(pdu, T.PDU_CLASS_OF_PRIM[pterm[0]])(a)
        out["term"] = T.pdu_to_term(obj)
    except API_ERRORS as e:
        out["rejected"] = type(e).__name__
        return out
    try:
        with guard():
            out["bytes"] = obj.encode()
    except Exception as e:  # noqa
        out["encode_exc"] = type(e).__name__
        return out
    try:
        with guard():
            dec = real_decode(out["bytes"])
        out["dec"] = T.pdu_to_term(dec)
        prim = dec.to_primitive()
        out["prim"] = T.prim_to_term(prim, {"assocrq": "rq", "assocac": "ac", "assocrj": "rj"}.get(pterm[0]))
    except Exception as e:  # noqa
        out["dec_exc"] = type(e).__name__
    out["lengths"] = T.lengths_exact(out["bytes"])
    return out


# --------------------------------------------------------------------------
# judge one case given the Lean replies
# --------------------------------------------------------------------------
def pc_item_faults(b: bytes):
    """PS3.8 Tables 9-13 / 9-18, checked on the bytes alone: a Presentation Context Item (RQ) holds exactly one Abstract
    Syntax Sub-item and at least one Transfer Syntax Sub-item; a Presentation Context Item (AC) holds exactly one
    Transfer Syntax Sub-item, whatever its Result/Reason."""
    out = []
    if len(b) < 74 or b[0] not in (1, 2):
        return out
    pos = 74
    while pos + 4 <= len(b):
        t, n = b[pos], int.from_bytes(b[pos + 2 : pos + 4], "big")
        body = b[pos + 4 : pos + 4 + n]
        if t in (0x20, 0x21):
            subs, q = [], 4
            while q + 4 <= len(body):
                subs.append(body[q])
                q += 4 + int.from_bytes(body[q + 2 : q + 4], "big")
            if t == 0x20 and (subs.count(0x30) != 1 or subs.count(0x40) < 1):
                out.append(f"context {body[0]} (RQ): {subs.count(0x30)} abstract syntax / {subs.count(0x40)} transfer syntax sub-items")
            if t == 0x21 and subs.count(0x40) != 1:
                out.append(f"context {body[0]} (AC, result {body[2]}): {subs.count(0x40)} transfer syntax sub-items, PS3.8 Table 9-18 prescribes one")
        pos += 4 + n
    return out


def judge(ctx, case, o, lean):
    """lean: dict with enc, props, dec, lengths (+ fromprim, toprim)."""
    term = o["term"]
    k = term[0]
    props = lean["props"]
    if not isinstance(props, list):
        ctx.diff(case, "term", props, "Lean rejects the term")
        return
    wf = props[0] == "T"
    canon_model = props[5]
    # ---- primitive -> PDU ------------------------------------------------
    if "pterm" in o:
        if lean["fromprim"] != term:
            ctx.diff(case, term, lean["fromprim"], "from_primitive: " + diff_path(term, lean["fromprim"]))
        # on the implementation alone: the PDU built from a primitive has the items PS3.8 prescribes
        if "bytes" in o and o["pterm"][0] in ("assocrq", "assocac"):
            ok_prim = all(len(c[2]) >= 1 for c in o["pterm"][4]) if isinstance(o["pterm"][4], list) else True
            for fault in (pc_item_faults(o["bytes"]) if ok_prim else []):
                ctx.fail(f"c01:from-primitive-layout:{o['pterm'][0]}", f"{o['pterm'][0]} primitive -> PDU: {fault}", case)
    # ---- encode ------------------------------------------------------------
    if "encode_exc" in o:
        if wf:
            ctx.fail(f"c01:encode-raises:{k}:{o['encode_exc']}",
                     f"encode() of a well-formed {k} PDU raises {o['encode_exc']}", case)
        return
    b = o["bytes"]
    if b != lean["enc"]:
        where = f"first difference at offset {next((i for i, (x, y) in enumerate(zip(b, lean['enc'])) if x != y), min(len(b), len(lean['enc'])))}"
        if wf:
            ctx.fail(f"c01:bytes:{k}", f"{k}: encoded bytes differ from the PS3.8 layout ({where}): "
                     f"code {b[:120].hex()} spec {lean['enc'][:120].hex()}", case)
        else:
            ctx.diff(case, b[:200], lean["enc"][:200], "encode (value outside WF): " + where)
        return
    # ---- lengths -------------------------------------------------------------
    if (lean["lengths"] == "T") != o["lengths"]:
        ctx.diff(case, o["lengths"], lean["lengths"], "lengthsExact walkers disagree")
    if wf and not o["lengths"]:
        ctx.fail(f"c01:lengths:{k}", f"{k}: a length field of the encoded PDU is not exact", case)
    # ---- decode ----------------------------------------------------------------
    if "dec_exc" in o:
        mdec = lean["dec"]
        if wf:
            ctx.fail(f"c01:decode-raises:{k}:{o['dec_exc']}", f"decoding the encoded well-formed {k} PDU raises "
                     f"{o['dec_exc']}", case)
        elif isinstance(mdec, list) and mdec[0] == "ok":
            ctx.diff(case, o["dec_exc"], mdec, "decode: code raises, model accepts")
        return
    mdec = lean["dec"]
    if mdec == ["err", "level"]:
        if o["dec"] != "level":
            ctx.diff(case, o["dec"], mdec, "decode: model reports a level violation, code term is typed")
    elif not (isinstance(mdec, list) and mdec[0] == "ok" and mdec[1] == o["dec"]):
        ctx.diff(case, o["dec"], mdec, "decode: " + (diff_path(o["dec"], mdec[1]) if mdec[0] == "ok" else "model rejects"))
    if wf:
        want = py_canon(term)
        if o["dec"] != want:
            ctx.fail(f"c01:roundtrip:{k}:{diff_path(want, o['dec'])}",
                     f"{k}: decode(encode(p)) != p at {diff_path(want, o['dec'])}", case)
        if canon_model != want:
            ctx.diff(case, want, canon_model, "canon")
        if "prim_exc" in o:
            ctx.fail(f"c01:rejects-wf:{k}:{o['prim_exc']}", f"{k}: to_primitive() of a well-formed PDU raises "
                     f"{o['prim_exc']}", case)
    # ---- to_primitive --------------------------------------------------------------
    if "toprim" in lean and o["dec"] != "level":
        mp = lean["toprim"]
        if "prim" in o:
            if mp != ["ok", o["prim"]]:
                ctx.diff(case, o["prim"], mp, "to_primitive: " + (diff_path(o["prim"], mp[1]) if mp[0] == "ok" else "model rejects"))
        elif "prim_exc" in o and isinstance(mp, list) and mp[0] == "ok":
            ctx.diff(case, o["prim_exc"], mp, "to_primitive: code raises, model accepts")
    # ---- primitive round trip --------------------------------------------------------
    if "pterm" in o and wf:
        want = py_canon_prim(o["pterm"])
        if o.get("prim") != want:
            ctx.fail(f"c01:prim-roundtrip:{o['pterm'][0]}:{diff_path(want, o.get('prim'))}",
                     f"{o['pterm'][0]}: primitive -> PDU -> bytes -> PDU -> primitive changes "
                     f"{diff_path(want, o.get('prim'))}", case)


def lean_requests(o):
    reqs = [["pdu.props", o["term"]], ["pdu.enc", o["term"]]]
    if "bytes" in o:
        reqs += [["pdu.dec", o["bytes"]], ["pdu.lengths", o["bytes"]]]
        if isinstance(o.get("dec"), list):
            reqs.append(["pdu.toprim", o["dec"]])
    if "pterm" in o:
        reqs.append(["pdu.fromprim", o["pterm"]])
    return reqs


def lean_unpack(o, replies):
    it = iter(replies)
    d = {"props": next(it), "enc": next(it)}
    if "bytes" in o:
        d["dec"], d["lengths"] = next(it), next(it)
        if isinstance(o.get("dec"), list):
            d["toprim"] = norm(next(it))
    if "pterm" in o:
        d["fromprim"] = next(it)
    return d


def process(ctx, outs, count=True):
    live = [o for o in outs if "term" in o]
    reqs, spans = [], []
    for o in live:
        r = lean_requests(o)
        spans.append((len(reqs), len(reqs) + len(r)))
        reqs += r
    replies = ctx.lean(reqs)
    for o, (a, b) in zip(live, spans):
        lean = lean_unpack(o, replies[a:b])
        case = {"kind": "prim" if "pterm" in o else "pdu", "term": T.jsonify(o["gen"])}
        wf = isinstance(lean["props"], list) and lean["props"][0] == "T"
        if count:
            ctx.case(case, nontrivial=wf, kind=("prim:" if "pterm" in o else "") + histogram_kind(o["term"], wf))
        judge(ctx, case, o, lean)
    return live


def corpus_cases():
    """the repo's captured byte strings: whole PDUs as they are, items wrapped into an A-ASSOCIATE-RQ"""
    path = os.path.join(REPO, "pynetdicom", "tests", "encoded_pdu_items.py")
    spec = importlib.util.spec_from_file_location("_encoded_pdu_items", path)
    mod = importlib.util.module_from_spec(spec)
    spec.loader.exec_module(mod)

    def tlv(t, body):
        return bytes([t, 0]) + struct.pack(">H", len(body)) + body

    def rq(items):
        body = b"\x00\x01\x00\x00" + b"CALLED".ljust(16) + b"CALLING".ljust(16) + b"\x00" * 32 + items
        return b"\x01\x00" + struct.pack(">I", len(body)) + body

    out = []
    for name, v in sorted(vars(mod).items()):
        if not isinstance(v, bytes) or not v:
            continue
        t = v[0]
        if 1 <= t <= 7 and len(v) >= 6 and int.from_bytes(v[2:6], "big") == len(v) - 6:
            out.append((name, v))
        elif t in (0x10, 0x20, 0x21, 0x50):
            out.append((name, rq(v)))
        elif 0x51 <= t <= 0x59:
            out.append((name, rq(tlv(0x50, v))))
        elif t in (0x30, 0x40):
            out.append((name, rq(tlv(0x20, b"\x01\x00\x00\x00" + v))))
    return out


def run_corpus(ctx):
    cases = corpus_cases()
    replies = ctx.lean([["pdu.dec", b] for _, b in cases] + [["pdu.lengths", b] for _, b in cases])
    n = len(cases)
    for i, (name, b) in enumerate(cases):
        case = {"kind": "corpus", "name": name, "bytes": T.jsonify(b)}
        try:
            with guard():
                impl = ["ok", T.pdu_to_term(real_decode(b))]
        except T.LevelViolation:
            impl = ["err", "level"]
        except Exception as e:  # noqa
            impl = ["err", type(e).__name__]
        ctx.case(case, nontrivial=impl[0] == "ok", kind="corpus")
        m = replies[i]
        if impl[0] != m[0] or (impl[0] == "ok" and impl[1] != m[1]):
            ctx.diff(case, impl, m, "captured PDU: decoders disagree")
        if (replies[n + i] == "T") != T.lengths_exact(b):
            ctx.diff(case, T.lengths_exact(b), replies[n + i], "captured PDU: lengthsExact walkers disagree")
    ctx.extra["corpus_pdus"] = n


def batch(ctx, n, count=True):
    r = ctx.rng
    outs = []
    rejected = 0
    for i in range(n):
        if i % 3 == 2:
            o = real_prim_case(G.prim_term(r))
        else:
            o = real_pdu_case(G.pdu_term(r, strict=r.random() < 0.85))
        if "rejected" in o:
            rejected += 1
        outs.append(o)
    ctx.extra["api_rejected"] = ctx.extra.get("api_rejected", 0) + rejected
    # chunk the Lean calls so that one request file stays small
    for a in range(0, len(outs), 500):
        process(ctx, outs[a:a + 500], count)


def run(ctx):
    _quiet()
    ctx.rule = ("random PDU item trees and service primitives built through pynetdicom's own classes/setters "
                "(every item kind, multiplicities 0..N, zero/max-length fields, padded AE titles, all "
                "result/source/reason codes) + the repo's captured byte strings; non-trivial = well-formed "
                "per PS3.8 (Lean `wf`), i.e. inside the domain of the theorems")
    run_corpus(ctx)
    batch(ctx, ctx.n(3000, 30000))
    if not ctx.quick:
        exhaustive_shapes(ctx)


def exhaustive_shapes(ctx):
    """small-scope enumeration: every user sub-item shape with field lengths in {0,1,2,63,64} and all
    role / flag bytes, each alone in an A-ASSOCIATE-RQ"""
    lens = [0, 1, 2, 63, 64]
    mk = lambda n: (b"1.2.3456789" * 8)[:n].rstrip(b".") .ljust(n, b"9") if n else b""
    subs = []
    for a in lens:
        subs.append(["impluid", mk(a)])
        subs.append(["implver", (b"ABCDEFGHIJKLMNOP" * 4)[:min(a, 16)]])
        subs.append(["uidac", b"\x01" * a])
        for s in (0, 1):
            for p in (0, 1):
                subs.append(["role", mk(a), s, p])
        for b in lens:
            subs.append(["sopext", mk(a), b"\x02" * b])
            for t in (1, 2, 3, 4, 5):
                for rr in (0, 1):
                    subs.append(["uidrq", t, rr, b"\x03" * a, b"\x04" * b])
            for c in lens:
                subs.append(["common", 0, mk(a), mk(b), [mk(c)] if c else []])
                subs.append(["common", 0, mk(a), mk(b), [mk(c), mk(a)] if c and a else []])
    outs = []
    for s in subs:
        outs.append(real_pdu_case(["rq", 1, b"A", b"B", [["app", b"1.2"], ["pcrq", 1, [["abs", b"1.2"], ["ts", b"1.3"]]],
                                                      ["ui", [s]]]]))
    for a in lens:
        for b in lens:
            outs.append(real_pdu_case(["rq", 1, b"A", b"B", [["app", mk(a)], ["pcrq", 1, [["abs", mk(b)], ["ts", mk(a)]]]]]))
            for res in range(5):
                outs.append(real_pdu_case(["ac", 1, b"A", b"B", [["app", mk(a)], ["pcac", 3, res, [["ts", mk(b)]]]]]))
    for a in range(0, len(outs), 500):
        process(ctx, outs[a:a + 500])
    ctx.extra["exhaustive_shapes"] = len(outs)


def search(ctx):
    """a theorem or the correspondence broke: hunt for an input on which the implementation itself
    violates the property (same oracles, fresh and larger batch)"""
    _quiet()
    batch(ctx, 6000, count=False)


def replay(ctx, case):
    _quiet()
    c = case["case"]
    if c["kind"] == "corpus":
        b = T.unjson(c["bytes"])
        print("bytes:", b.hex())
        try:
            print("code :", T.pdu_to_term(real_decode(b)))
        except Exception as e:  # noqa
            print("code raises", repr(e))
        print("model:", ctx.lean([["pdu.dec", b]])[0])
        return 0
    term = T.unjson(c["term"])
    o = real_prim_case(term) if c["kind"] == "prim" else real_pdu_case(term)
    for k2, v in o.items():
        print(f"{k2:10}:", v.hex() if isinstance(v, bytes) else v)
    if "term" not in o:
        return 0
    before = len(ctx.failures)
    replies = ctx.lean(lean_requests(o))
    lean = lean_unpack(o, replies)
    print("spec bytes:", lean["enc"].hex() if isinstance(lean["enc"], bytes) else lean["enc"])
    judge(ctx, c, o, lean)
    for f in ctx.failures[before:]:
        print("FAIL:", f["sig"], "-", f["what"][:300])
    return 1 if len(ctx.failures) > before else 0
