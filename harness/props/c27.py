"""C27 — event notifications form a well-formed history.

Trace validation: every notification history recorded from real two-AE lifecycle scenarios (both
sides; schedule shaken through the verif hook points) is checked by the Lean checker
`History.wf` (through the driver) and, independently, by the Python oracle below; the two verdicts
are compared (correspondence of spec and oracle) and the wire clauses are checked across the two
sides: what one side reports as sent PDUs is what the other reports as received, in order.
"""
from harness import e2e

TERMS = {
    "EVT_CONN_OPEN": "connOpen", "EVT_CONN_CLOSE": "connClose", "EVT_ESTABLISHED": "established",
    "EVT_RELEASED": "released", "EVT_ABORTED": "aborted", "EVT_REJECTED": "rejected",
}


def to_terms(hist):
    out = []
    for rec in hist:
        name = rec[1]
        if name in TERMS:
            out.append(TERMS[name])
        elif name == "EVT_FSM_TRANSITION":
            out.append(["fsm", int(rec[2][3:]), int(rec[3][3:]), int(rec[5][3:])])
        elif name == "EVT_PDU_SENT":
            out.append(["pduSent", rec[2]])
        elif name == "EVT_PDU_RECV":
            out.append(["pduRecv", rec[2]])
        elif name == "EVT_DATA_SENT":
            out.append(["dataSent", rec[2]])
        elif name == "EVT_DATA_RECV":
            out.append(["dataRecv", rec[2]])
    return out


def py_verdict(terms, complete=True):
    """independent re-statement of the well-formedness rules"""
    st, opened, closed, est, term = 1, False, False, False, False
    for t in terms:
        wire = isinstance(t, list) and t[0] in ("pduSent", "pduRecv", "dataSent", "dataRecv")
        if isinstance(t, list) and t[0] == "fsm":
            if t[1] != st:
                return "fsm-chain-broken"
            st = t[3]
    for t in terms:
        wire = isinstance(t, list) and t[0] in ("pduSent", "pduRecv", "dataSent", "dataRecv")
        if t == "connOpen":
            if opened:
                return "conn-open-not-first-or-repeated"
            opened = True
        elif (wire or t == "connClose") and not opened:
            return "conn-open-not-first-or-repeated"
    for t in terms:
        wire = isinstance(t, list) and t[0] in ("pduSent", "pduRecv", "dataSent", "dataRecv")
        if t == "connClose":
            if closed:
                return "conn-close-repeated-or-not-last"
            closed = True
        elif (wire or t == "connOpen") and closed:
            return "conn-close-repeated-or-not-last"
    for t in terms:
        if t == "established":
            if est or term:
                return "established-order"
            est = True
        elif t in ("released", "aborted"):
            term = True
    if complete and "connOpen" in terms and "connClose" not in terms:
        return "conn-close-missing"
    return "ok"


def check_history(ctx, side, res, pending):
    terms = to_terms(res[side]["hist"])
    pending.append((side, res, terms))


def judge(ctx, scenario_case, results):
    """results: list of (side, res, terms); queries the Lean checker in one batch"""
    reps = ctx.lean([["hist.wf", True, t] for _, _, t in results])
    by_res = {}
    for (side, res, terms), rep in zip(results, reps):
        lean_v, ds, ps, dr, pr = rep[0], list(rep[1]), list(rep[2]), list(rep[3]), list(rep[4])
        case = ["history", side, res["script"], terms]
        ctx.case(case, nontrivial=len(terms) >= 8, kind=f"{side}:{res['script']['acc']}:{res['script']['req'][-1]}")
        pv = py_verdict(terms)
        if pv != lean_v:
            ctx.diff(case, pv, lean_v, "python oracle and Lean checker disagree on a recorded history")
        if lean_v != "ok":
            died = [e for e in res.get("thread_errors", []) if e[0] == "DULServiceProvider"]
            if lean_v == "conn-close-missing" and died:
                # consequence of the provider thread dying (C05's known races), not a separate defect
                ctx.fail("history:conn-close-missing:provider-thread-died", f"{side}: no connection-close notification because the provider thread died ({died[0][1]})", case)
            else:
                ctx.fail("history:" + lean_v, f"{side} history violates '{lean_v}'", case)
        if ds != ps:
            ctx.fail("history:pdu-sent-without-data-sent", f"{side}: PDU_SENT kinds {ps} but DATA_SENT kinds {ds}", case)
        if dr[: len(pr)] != pr and pr[: len(dr)] != dr:
            ctx.fail("history:pdu-recv-mismatch", f"{side}: PDU_RECV kinds {pr} but DATA_RECV kinds {dr}", case)
        by_res.setdefault(id(res), {})[side] = (ds, dr, case)
    for sides in by_res.values():
        if "req" in sides and "acc" in sides:
            for a, b in (("req", "acc"), ("acc", "req")):
                sent, recv = sides[a][0], sides[b][1]
                if recv != sent[: len(recv)]:
                    ctx.fail(
                        "history:wire-mismatch",
                        f"{a} reports sending PDU kinds {sent} but {b} reports receiving {recv}",
                        sides[a][2],
                    )


def run(ctx):
    ctx.rule = (
        "two real AEs on loopback, generated lifecycle scripts (echo*, release/abort/idle on the requestor; release/abort/"
        "handler-abort/nothing on the acceptor; rejection), schedule shaken by seed-derived delays at the hook points; one "
        "case = the complete notification history of one side; non-trivial = at least 8 recorded notifications"
    )
    ctx.assumptions.append("real thread interleavings are sampled (shaken), not enumerated")
    results = []
    scenarios = [e2e.gen_scenario(ctx.rng) for _ in range(ctx.n(120, 3000))]
    for res in e2e.run_many(scenarios, ctx.seed, workers=12):
        if res.get("hang"):
            # termination is C06's clause; here the histories are simply not available
            ctx.note("a scenario did not terminate (see C06)")
            continue
        if "harness_error" in res:
            ctx.diff(["scenario", res["script"]], res["harness_error"], "n/a", "scenario harness failed")
            continue
        for side in ("req", "acc"):
            if res[side]["hist"]:
                check_history(ctx, side, res, results)
    judge(ctx, None, results)


def replay(ctx, case):
    c = case["case"]
    rep = ctx.lean([["hist.wf", True, c[3]]])[0]
    print("history:", c[3])
    print("lean verdict:", rep[0], " python verdict:", py_verdict(c[3]))
    return 0 if rep[0] == "ok" else 1
