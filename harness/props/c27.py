"""C27 — event notifications form a well-formed history.

Trace validation: every notification history recorded from real two-AE lifecycle scenarios (both
sides; schedule shaken through the verif hook points) is checked by the Lean checker
`History.wf` (through the driver) and, independently, by the Python oracle below; the two verdicts
are compared (correspondence of spec and oracle) and the wire clauses are checked across the two
sides: what one side reports as sent PDUs is what the other reports as received, in order.
"""
from harness import poolinit as _e2e_exit
from harness import e2e

TERMS = {
    "EVT_CONN_OPEN": "connOpen", "EVT_CONN_CLOSE": "connClose", "EVT_ESTABLISHED": "established",
    "EVT_RELEASED": "released", "EVT_ABORTED": "aborted", "EVT_REJECTED": "rejected",
}


def to_terms(hist):
    out = []
    for rec in hist:
        name = rec[1]
        if name in TERMS:
            out.append(TERMS[name])
        elif name == "EVT_FSM_TRANSITION":
            out.append(["fsm", int(rec[2][3:]), int(rec[3][3:]), int(rec[5][3:])])
        elif name == "EVT_PDU_SENT":
            out.append(["pduSent", rec[2]])
        elif name == "EVT_PDU_RECV":
            out.append(["pduRecv", rec[2]])
        elif name == "EVT_DATA_SENT":
            out.append(["dataSent", rec[2]])
        elif name == "EVT_DATA_RECV":
            out.append(["dataRecv", rec[2]])
    return out


def py_verdict(terms, complete=True):
    """independent re-statement of the well-formedness rules"""
    st, opened, closed, est, term = 1, False, False, False, False
    for t in terms:
        wire = isinstance(t, list) and t[0] in ("pduSent", "pduRecv", "dataSent", "dataRecv")
        if isinstance(t, list) and t[0] == "fsm":
            if t[1] != st:
                return "fsm-chain-broken"
            st = t[3]
    for t in terms:
        wire = isinstance(t, list) and t[0] in ("pduSent", "pduRecv", "dataSent", "dataRecv")
        if t == "connOpen":
            if opened:
                return "conn-open-not-first-or-repeated"
            opened = True
        elif (wire or t == "connClose") and not opened:
            return "conn-open-not-first-or-repeated"
    for t in terms:
        wire = isinstance(t, list) and t[0] in ("pduSent", "pduRecv", "dataSent", "dataRecv")
        if t == "connClose":
            if closed:
                return "conn-close-repeated-or-not-last"
            closed = True
        elif (wire or t == "connOpen") and closed:
            return "conn-close-repeated-or-not-last"
    for t in terms:
        if t == "established":
            if est or term:
                return "established-order"
            est = True
        elif t in ("released", "aborted"):
            term = True
    if complete and "connOpen" in terms and "connClose" not in terms:
        return "conn-close-missing"
    return "ok"


def check_history(ctx, side, res, pending):
    terms = to_terms(res[side]["hist"])
    pending.append((side, res, terms))


def judge(ctx, scenario_case, results):
    """results: list of (side, res, terms); queries the Lean checker in one batch"""
    reps = ctx.lean([["hist.wf", True, t] for _, _, t in results])
    by_res = {}
    for (side, res, terms), rep in zip(results, reps):
        lean_v, ds, ps, dr, pr = rep[0], list(rep[1]), list(rep[2]), list(rep[3]), list(rep[4])
        case = ["history", side, res["script"], terms]
        ctx.case(case, nontrivial=len(terms) >= 8, kind=f"{side}:{res['script']['acc']}:{res['script']['req'][-1]}")
        pv = py_verdict(terms)
        if pv != lean_v:
            ctx.diff(case, pv, lean_v, "python oracle and Lean checker disagree on a recorded history")
        if lean_v != "ok":
            died = [e for e in res.get("thread_errors", []) if e[0] == "DULServiceProvider"]
            if lean_v == "conn-close-missing" and died:
                # consequence of the provider thread dying (C05's known races), not a separate defect
                from harness import e2e as _e2e

                ctx.fail(f"history:conn-close-missing:provider-thread-died:{_e2e.died_cause(died)}", f"{side}: no connection-close notification because the provider thread died ({died[0][1]})", case)
            else:
                ctx.fail("history:" + lean_v, f"{side} history violates '{lean_v}'", case)
        if ds != ps:
            ctx.fail("history:pdu-sent-without-data-sent", f"{side}: PDU_SENT kinds {ps} but DATA_SENT kinds {ds}", case)
        if dr[: len(pr)] != pr and pr[: len(dr)] != dr:
            ctx.fail("history:pdu-recv-mismatch", f"{side}: PDU_RECV kinds {pr} but DATA_RECV kinds {dr}", case)
        if not str(res["script"]["acc"]).startswith("stray-"):  # there the harness itself put bytes on the wire
            by_res.setdefault(id(res), {})[side] = (ds, dr, case)
    for sides in by_res.values():
        if "req" in sides and "acc" in sides:
            for a, b in (("req", "acc"), ("acc", "req")):
                sent, recv = sides[a][0], sides[b][1]
                if recv != sent[: len(recv)]:
                    ctx.fail(
                        "history:wire-mismatch",
                        f"{a} reports sending PDU kinds {sent} but {b} reports receiving {recv}",
                        sides[a][2],
                    )


def stray_pdu_scenario(kind):
    """A requestor is waiting for the answer to its C-ECHO when the peer puts an unexpected (kind "release-rp") or an
    unrecognisable (kind "invalid") PDU on the wire; a slow EVT_PDU_SENT observer widens the window between the
    provider's A-ABORT and its A-P-ABORT indication.  Both histories must still be well formed (the provider aborts,
    goes to Sta13, closes, announces the close once)."""
    import threading
    import time

    from pynetdicom import AE, evt
    from pynetdicom.pdu import A_RELEASE_RP
    from pynetdicom.sop_class import Verification

    e2e.quiet()
    before = set(e2e.pynet_threads())
    rec_req, rec_acc = e2e.Recorder(), e2e.Recorder()
    thread_errors = []
    old_hook = threading.excepthook
    threading.excepthook = lambda a: thread_errors.append((type(a.thread).__name__, a.exc_type.__name__ + ": " + str(a.exc_value)))
    acc = {}

    def on_echo(event):
        raw = A_RELEASE_RP().encode() if kind == "release-rp" else b"\x99\x00\x00\x00\x00\x00"
        event.assoc.dul.socket.socket.sendall(raw)  # straight onto the wire, not through the state machine
        time.sleep(0.3)
        return 0x0000

    ae = AE()
    ae.add_supported_context(Verification)
    ae.acse_timeout = ae.dimse_timeout = ae.network_timeout = 3
    srv = ae.start_server(("127.0.0.1", 0), block=False,
                          evt_handlers=rec_acc.handlers() + [(evt.EVT_C_ECHO, on_echo), (evt.EVT_ESTABLISHED, lambda e: acc.__setitem__("a", e.assoc))])
    try:
        cl = AE()
        cl.add_requested_context(Verification)
        cl.acse_timeout = cl.dimse_timeout = cl.network_timeout = 3
        a = cl.associate("127.0.0.1", srv.socket.getsockname()[1],
                         evt_handlers=rec_req.handlers() + [(evt.EVT_PDU_SENT, lambda e: time.sleep(0.05))])
        if not a.is_established:
            return {"error": "not established"}
        a.send_c_echo()
        leaks = e2e.wait_quiet(before, 3 * 3 + 2.0, (rec_req, rec_acc))
        res = {"script": {"req": ["echo"], "acc": "stray-" + kind, "acc_delay_ms": 0, "reject": False, "shake": False, "timeouts": 3},
               "thread_errors": list(thread_errors), "leaks": leaks,
               "req": {"hist": rec_req.history(a)}, "acc": {"hist": rec_acc.history(acc["a"]) if "a" in acc else []}}
        return res
    finally:
        threading.excepthook = old_hook
        srv.shutdown()


def stream_cancel_scenario(n_pending):
    """Traffic in both directions at once: the acceptor streams `n_pending` C-FIND Pending responses (command set and
    identifier, small PDUs) while the requestor sends a C-CANCEL after the third one, then releases.  The provider
    threads of both sides see primitives to send and PDUs to read in the same iterations."""
    import threading

    from pydicom.dataset import Dataset
    from pynetdicom import AE, evt
    from pynetdicom.sop_class import PatientRootQueryRetrieveInformationModelFind as FIND

    e2e.quiet()
    before = set(e2e.pynet_threads())
    rec_req, rec_acc = e2e.Recorder(), e2e.Recorder()
    thread_errors = []
    old_hook = threading.excepthook
    threading.excepthook = lambda a: thread_errors.append((type(a.thread).__name__, a.exc_type.__name__ + ": " + str(a.exc_value)))
    acc = {}

    def on_find(event):
        acc["a"] = event.assoc
        for i in range(n_pending):
            if event.is_cancelled:
                yield 0xFE00, None
                return
            ds = Dataset()
            ds.QueryRetrieveLevel = "PATIENT"
            ds.PatientID = str(i)
            ds.PatientName = "X" * 600
            yield 0xFF00, ds

    t_o = 5.0 * e2e.load_factor()
    ae = AE()
    ae.add_supported_context(FIND)
    ae.maximum_pdu_size = 512
    ae.acse_timeout = ae.dimse_timeout = ae.network_timeout = t_o
    srv = ae.start_server(("127.0.0.1", 0), block=False, evt_handlers=rec_acc.handlers() + [(evt.EVT_C_FIND, on_find)])
    try:
        cl = AE()
        cl.add_requested_context(FIND)
        cl.maximum_pdu_size = 512
        cl.acse_timeout = cl.dimse_timeout = cl.network_timeout = t_o
        a = cl.associate("127.0.0.1", srv.socket.getsockname()[1], evt_handlers=rec_req.handlers())
        if not a.is_established:
            return {"error": "not established"}
        q = Dataset()
        q.QueryRetrieveLevel = "PATIENT"
        q.PatientID = "*"
        seen = 0
        for status, _ in a.send_c_find(q, FIND, msg_id=1):
            seen += 1
            if seen == 3:
                a.send_c_cancel(1, query_model=FIND)
        if a.is_established:
            a.release()
        leaks = e2e.wait_quiet(before, 2 * t_o + 2.0, (rec_req, rec_acc))
        return {"script": {"req": ["find-cancel", "release"], "acc": f"stream-cancel-{n_pending}", "acc_delay_ms": 0, "reject": False,
                           "shake": False, "timeouts": t_o},
                "thread_errors": list(thread_errors), "leaks": leaks, "responses": seen,
                "req": {"hist": rec_req.history(a)}, "acc": {"hist": rec_acc.history(acc["a"]) if "a" in acc else []}}
    finally:
        threading.excepthook = old_hook
        srv.shutdown()


def run(ctx):
    ctx.rule = (
        "two real AEs on loopback, generated lifecycle scripts (echo*, release/abort/idle on the requestor; release/abort/"
        "handler-abort/nothing on the acceptor; rejection), schedule shaken by seed-derived delays at the hook points; one "
        "case = the complete notification history of one side; non-trivial = at least 8 recorded notifications"
    )
    ctx.assumptions.append("real thread interleavings are sampled (shaken), not enumerated")
    ctx.assumptions.append(
        "a recorded history is judged as complete (close clause demanded) once its association has been started and its "
        "threads have ended, the recorders being frozen at that point - or when the scenario's time limit expired"
    )
    results = []
    scenarios = [e2e.gen_scenario(ctx.rng) for _ in range(ctx.n(120, 3000))]
    for res in e2e.run_many(scenarios, ctx.seed, workers=12):
        if res.get("hang"):
            # termination is C06's clause; here the histories are simply not available
            ctx.note("a scenario did not terminate (see C06)")
            continue
        if "harness_error" in res:
            ctx.diff(["scenario", res["script"]], res["harness_error"], "n/a", "scenario harness failed")
            continue
        for side in ("req", "acc"):
            if res[side]["hist"]:
                check_history(ctx, side, res, results)
    import multiprocessing as mp

    pool = mp.get_context("fork").Pool(processes=2, maxtasksperchild=1, initializer=_e2e_exit.no_join_at_exit)
    try:
        stray = pool.map(stray_pdu_scenario, ["release-rp", "invalid"] * ctx.n(2, 10))
    finally:
        pool.terminate()
        pool.join()
    pool = mp.get_context("fork").Pool(processes=2, maxtasksperchild=1, initializer=_e2e_exit.no_join_at_exit)
    try:
        stray += pool.map(stream_cancel_scenario, [150, 60] * ctx.n(1, 4))
    finally:
        pool.terminate()
        pool.join()
    for res in stray:
        if "error" in res:
            ctx.diff(["stray-pdu"], res, "n/a", "scenario harness failed")
            continue
        for side in ("req", "acc"):
            if res[side]["hist"]:
                check_history(ctx, side, res, results)
    # the association-level lifecycle against Model/Life.lean: directed handler-made aborts, the forced window race,
    # and trace inclusion of every recorded history
    from harness.props import c27_life

    c27_life.run_directed(ctx, lambda side, res: check_history(ctx, side, res, results), ctx.n(1, 4))
    judge(ctx, None, results)
    c27_life.inclusion(ctx, results)


def replay(ctx, case):
    c = case["case"]
    if c[0] == "life-handler-abort":
        from harness.props import c27_life

        res = c27_life._run_pool(c27_life.handler_abort_scenario, [(c[1], c[2])], procs=1)[0]
        real = c27_life.projection(res[c[1]]["hist"])
        out = ctx.lean([["life.run", c[1] == "acc", c27_life.guards()[c[1]], c27_life.SCHEDULES[(c[1], c[2])]]])[0]
        print("recorded:", real, " model:", [str(x) for x in out[1]])
        bad = "established" in real and "aborted" in real and real.index("aborted") < real.index("established")
        return 1 if bad or real != [str(x) for x in out[1]] else 0
    if c[0] == "life-window-abort":
        from harness.props import c27_life

        res = c27_life._run_pool(c27_life.window_scenario, [c[1]], procs=1)[0]
        real = c27_life.projection(res[c[1]]["hist"])
        print("recorded:", real)
        return 1 if "established" in real and "aborted" in real and real.index("aborted") < real.index("established") else 0
    if c[0] == "life-inclusion":
        rep = ctx.lean([["life.accepts", c[1] == "acc", True, c[3]]])[0]
        print("lifecycle notifications:", c[3], " accepted by the model:", rep)
        return 0 if rep == "T" else 1
    rep = ctx.lean([["hist.wf", True, c[3]]])[0]
    print("history:", c[3])
    print("lean verdict:", rep[0], " python verdict:", py_verdict(c[3]))
    return 0 if rep[0] == "ok" else 1
