"""C03 — PDU framing is independent of how TCP splits the byte stream.

Real side: `AssociationSocket.recv` + `DULServiceProvider._read_pdu_data` over a
real `socket.socketpair()`.  The receiving end is wrapped in a proxy that caps
every `recv` at a generated size (so every read-level segmentation is
exercised on top of whatever the kernel does) and records what each read
returned; a peer thread writes the stream in generated chunks with generated
gaps and closes at a generated offset.  The recorded read results are the
oracle the Lean model `Framing.frames` is run with; both must see the same
frames, and the property oracle (exactly the PDUs sent, in order, then closed;
never a truncated PDU) is evaluated on the real side alone.
"""
from harness import poolinit as _e2e_exit
import itertools
import socket
import threading
import time


class Proxy:
    """socket wrapper: caps and records reads; can raise a timeout at a chosen read"""

    def __init__(self, sock, caps, timeout_at=None):
        self._s, self.caps, self.log, self.timeout_at = sock, list(caps), [], timeout_at
        self.n = 0

    def fileno(self):
        return self._s.fileno()

    def recv(self, bufsize):
        i = self.n
        self.n += 1
        if self.timeout_at is not None and i == self.timeout_at:
            self.log.append("timeout")
            raise TimeoutError("scripted")
        cap = self.caps[i] if i < len(self.caps) else 4096
        data = self._s.recv(max(1, min(bufsize, cap)))
        self.log.append(max(len(data) - 1, 0))
        return data

    def shutdown(self, how):
        try:
            self._s.shutdown(how)
        except OSError:
            pass

    def close(self):
        self._s.close()

    def __getattr__(self, name):
        return getattr(self._s, name)


def make_pdus(rng, n):
    from pynetdicom.pdu import A_ABORT_RQ, A_RELEASE_RP, A_RELEASE_RQ, P_DATA_TF
    from pynetdicom.pdu_primitives import P_DATA

    out = []
    for _ in range(n):
        k = rng.random()
        if k < 0.6:
            p = P_DATA()
            items = []
            for _ in range(rng.choice([1, 1, 2, 3])):
                ln = rng.choice([1, 2, 5, 60, 300, 4090, 4096, 4097, 9000]) if rng.random() < 0.5 else rng.randint(1, 40)
                items.append([rng.choice([1, 3, 5, 255]), bytes([rng.choice([0, 1, 2, 3])]) + rng.randbytes(ln)])
            p.presentation_data_value_list = items
            out.append(P_DATA_TF(p).encode())
        elif k < 0.75:
            out.append(A_RELEASE_RQ().encode())
        elif k < 0.85:
            out.append(A_RELEASE_RP().encode())
        else:
            a = A_ABORT_RQ()
            a.source, a.reason_diagnostic = rng.choice([(0, 0), (2, 0), (2, 1), (2, 6)])
            out.append(a.encode())
    return out


def run_real(stream, chunks, gaps, caps, timeout_at=None):
    """returns (frames, recorded oracle). frames: ['pdu', bytes] | ['unrec'] | 'closed'"""
    from pynetdicom import AE, evt
    from pynetdicom.association import Association
    from pynetdicom.transport import AssociationSocket

    a, b = socket.socketpair()
    a.settimeout(10)
    proxy = Proxy(a, caps, timeout_at)
    assoc = Association(AE(), "acceptor")
    sock = AssociationSocket(assoc, client_socket=proxy)
    assoc.set_socket(sock)
    dul = assoc.dul
    got = []
    assoc.bind(evt.EVT_DATA_RECV, lambda e: got.append(bytes(e.data)))

    def writer():
        try:
            off = 0
            for ln, gap in zip(chunks, gaps):
                if gap:
                    time.sleep(gap)
                b.sendall(stream[off : off + ln])
                off += ln
        finally:
            try:
                b.shutdown(socket.SHUT_WR)
            except OSError:
                pass

    th = threading.Thread(target=writer, daemon=True)
    th.start()
    frames = []
    deadline = time.time() + 20
    try:
        while time.time() < deadline:
            while not dul.event_queue.empty():
                dul.event_queue.get()
            if not sock.ready:
                time.sleep(0.0005)
                continue
            n0 = len(got)
            dul._read_pdu_data()
            evs = []
            while not dul.event_queue.empty():
                evs.append(dul.event_queue.get())
            if len(got) > n0:
                frames.append(["pdu", got[-1]])
            elif "Evt17" in evs:
                frames.append("closed")
                break
            elif "Evt19" in evs:
                frames.append(["unrec"])
            else:
                frames.append(["?", evs])
                break
    finally:
        th.join(5)
        a.close()
        b.close()
    return frames, list(proxy.log)


def gen_case(rng, thorough=False):
    pdus = make_pdus(rng, rng.choice([0, 1, 1, 2, 3, 5]))
    kind = "valid"
    stream = b"".join(pdus)
    expected = [["pdu", p] for p in pdus]
    tail_kind = rng.random()
    if tail_kind < 0.35 and True:
        # close part-way through one more PDU
        extra = make_pdus(rng, 1)[0]
        cut = rng.randrange(1, len(extra))
        stream += extra[:cut]
        kind = "midclose-header" if cut < 6 else "midclose-body"
    elif tail_kind < 0.45:
        # an unrecognised PDU type: only its 6 header bytes are consumed, then the stream ends
        stream += bytes([rng.choice([0, 8, 9, 0x80, 0xFF]), 0, 0, 0, 0, 0])
        expected.append(["unrec"])
        kind = "unrecognised"
    expected.append("closed")
    # chunking
    n = len(stream)
    ncuts = rng.choice([0, 1, 2, 3, 8, 20]) if n > 1 else 0
    cuts = sorted(rng.sample(range(1, n), min(ncuts, n - 1))) if n > 1 else []
    chunks = [j - i for i, j in zip([0] + cuts, cuts + [n])] if n else []
    gaps = [rng.choice([0, 0, 0, 0.001, 0.003, 0.01]) for _ in chunks]
    caps = [rng.choice([1, 1, 2, 3, 5, 6, 7, 100, 4095, 4096, 10000]) for _ in range(rng.choice([0, 4, 30, 200]))]
    return dict(stream=stream, chunks=chunks, gaps=gaps, caps=caps, expected=expected, kind=kind, timeout_at=None)


def check_case(ctx, c, pending):
    frames, oracle = run_real(c["stream"], c["chunks"], c["gaps"], c["caps"], c["timeout_at"])
    case = ["frame", c["stream"], c["chunks"], c["caps"], c["timeout_at"] if c["timeout_at"] is not None else "none"]
    nontrivial = len(c["chunks"]) > 1 or any(isinstance(o, int) and o < 5 for o in oracle)
    ctx.case(case, nontrivial=nontrivial, kind=c["kind"] + (":1chunk" if len(c["chunks"]) <= 1 else ":chunked"))
    real = [f if f == "closed" else (["pdu", f[1]] if f[0] == "pdu" else [f[0]]) for f in frames]
    if c["expected"] is not None and real != c["expected"]:
        ctx.fail(
            "framing:" + c["kind"],
            f"stream of {len(c['stream'])} bytes in chunks {c['chunks'][:12]} caps {c['caps'][:12]}: "
            f"received {summ(real)} expected {summ(c['expected'])}",
            case,
        )
    pending.append((case, real, ["frame", c["stream"], oracle]))


def summ(fr):
    return [f if isinstance(f, str) else (f[0] + (":%d" % len(f[1]) if len(f) > 1 else "")) for f in fr]


def flush(ctx, pending):
    replies = ctx.lean([p[2] for p in pending])
    for (case, real, _), rep in zip(pending, replies):
        model = [f if f == "closed" else (["pdu", f[1]] if f[0] == "pdu" else ["unrec"]) for f in rep]
        if model != real:
            ctx.diff(case, summ(real), summ(model))
    pending.clear()


# ---------------------------------------------------------------------------------------------
# gaps between chunks vs the network-idle timer, on a real acceptor
# ---------------------------------------------------------------------------------------------
def idle_scenario(args):
    """args = (T seconds, plan): plan = [[gap ticks, last?], ...] for two C-ECHO-RQ PDUs sent to a real acceptor with
    network_timeout T (1 tick = T / 10).  -> dict(answers = PDU types received after each complete request, aborted)"""
    import socket
    import time

    from harness import e2e
    from harness.props import c08
    from pynetdicom import AE
    from pynetdicom.sop_class import Verification

    T, plan = args[0], args[1]
    late = len(args) > 2 and args[2]
    e2e.quiet()
    B = c08._bytes()
    ae = AE()
    ae.add_supported_context(Verification)
    ae.acse_timeout = ae.dimse_timeout = 30
    # late: the server is started under a much shorter network timeout, which is raised to T before the peer connects -
    # the timeout in force when the association is accepted is what bounds the gaps
    ae.network_timeout = T / 5.0 if late else T
    srv = ae.start_server(("127.0.0.1", 0), block=False)
    ae.network_timeout = T
    s = socket.create_connection(("127.0.0.1", srv.socket.getsockname()[1]))
    s.settimeout(3 * T + 2)
    out = {"answers": [], "aborted": False}
    try:
        s.sendall(B["rq"])
        if s.recv(4096)[:1] != b"\x02":
            return {"error": "not accepted"}
        # cut the two requests into the planned chunks
        pdu = B["echo_rq"]
        groups, cur = [], []
        for gap, last in plan:
            cur.append(gap)
            if last:
                groups.append(cur)
                cur = []
        tick = T / 10.0
        for gaps in groups:
            k = len(gaps)
            cuts = [len(pdu) * i // k for i in range(k + 1)]
            for i, gap in enumerate(gaps):
                time.sleep(gap * tick)
                try:
                    s.sendall(pdu[cuts[i] : cuts[i + 1]])
                except OSError:
                    out["aborted"] = True
            try:
                r = s.recv(4096)
            except (socket.timeout, OSError):
                r = b""
            out["answers"].append(r[0] if r else None)
            if not r or r[0] == 7:
                out["aborted"] = True
                break
        return out
    finally:
        try:
            s.close()
        except OSError:
            pass
        srv.shutdown()


def slow_answer_scenario(args):
    """pynetdicom REQUESTS with connection_timeout = ct and network_timeout = None (unlimited inactivity allowed): the
    peer sends its A-ASSOCIATE-AC and its C-ECHO response in two pieces each, `gap` seconds apart (cut inside the 6-byte
    header or inside the body).  The timeout for making the connection must play no part once connected."""
    import socket
    import threading
    import time

    from harness import e2e
    from harness.lockstep import wire_bytes
    from pynetdicom import AE
    from pynetdicom.sop_class import Verification

    ct, gap, cut = args
    e2e.quiet()
    lst = socket.socket()
    lst.bind(("127.0.0.1", 0))
    lst.listen(1)

    def peer():
        c, _ = lst.accept()
        c.settimeout(10)
        try:
            c.recv(4096)
            ac = wire_bytes(3, False)
            c.sendall(ac[:cut])
            time.sleep(gap)
            c.sendall(ac[cut:])
            rq = c.recv(4096)  # C-ECHO-RQ
            if rq[:1] == b"\x04":
                from pynetdicom.dimse_messages import C_ECHO_RSP
                from pynetdicom.dimse_primitives import C_ECHO
                from pynetdicom.pdu import P_DATA_TF

                r = C_ECHO()
                r.MessageIDBeingRespondedTo, r.AffectedSOPClassUID, r.Status = 1, "1.2.840.10008.1.1", 0
                m = C_ECHO_RSP()
                m.primitive_to_message(r)
                data = P_DATA_TF(next(iter(m.encode_msg(1, 16382)))).encode()
                c.sendall(data[:cut])
                time.sleep(gap)
                c.sendall(data[cut:])
                c.recv(4096)
        except OSError:
            pass
        finally:
            c.close()

    th = threading.Thread(target=peer, daemon=True)
    th.start()
    ae = AE()
    ae.add_requested_context(Verification)
    ae.connection_timeout = ct
    ae.network_timeout = None
    ae.acse_timeout = ae.dimse_timeout = 30
    out = {}
    try:
        a = ae.associate("127.0.0.1", lst.getsockname()[1])
        out["established"] = a.is_established
        if a.is_established:
            st = a.send_c_echo()
            out["echo"] = getattr(st, "Status", None) if st else None
            out["still_established"] = a.is_established
            a.abort()
        return out
    finally:
        lst.close()


def idle_check(ctx):
    import multiprocessing as mp

    from harness import e2e
    from translate import timeouts as tr_timeouts

    T = round(1.0 * e2e.load_factor(), 2)
    rng = ctx.rng
    plans = [
        [[0, False], [7, False], [7, True], [1, True]],          # one PDU trickling in over 1.4 T
        [[0, False], [7, True], [7, True]],                       # split PDU, then a quiet gap: 0.7 T + 0.7 T
        [[0, True], [8, False], [0, False], [8, True]],
    ]
    for _ in range(ctx.n(3, 40)):
        plan = []
        for _pdu in range(2):
            k = rng.choice([1, 2, 3])
            for i in range(k):
                plan.append([rng.choice([0, 0, 4, 8]), i == k - 1])
        plans.append(plan)
    pool = mp.get_context("fork").Pool(processes=6, maxtasksperchild=4, initializer=_e2e_exit.no_join_at_exit)
    try:
        # the three fixed plans once more with the network timeout raised to T only after start_server
        lates = [False] * len(plans) + [True, True, True]
        plans = plans + plans[:3]
        results = pool.map(idle_scenario, [(T, p, l) for p, l in zip(plans, lates)])
        # a plan that went wrong is run once more, alone (gaps of 0.8 T leave little room on a busy machine)
        for i, r in enumerate(results):
            if "error" in r or r.get("aborted"):
                results[i] = pool.apply(idle_scenario, ((2 * T, plans[i], lates[i]),))
    finally:
        pool.terminate()
        pool.join()
    # requestor side: the connection timeout must not survive the connection
    lf = e2e.load_factor()
    sjobs = [(0.3 * lf, 0.9 * lf, cut) for cut in (3, 40)]
    pool = mp.get_context("fork").Pool(processes=2, maxtasksperchild=1, initializer=_e2e_exit.no_join_at_exit)
    try:
        sres = pool.map(slow_answer_scenario, sjobs)
    finally:
        pool.terminate()
        pool.join()
    for job, r in zip(sjobs, sres):
        case = ["slow-answer", list(job)]
        ctx.case(case, nontrivial=True, kind="slow-answer:requestor")
        if not r.get("established") or r.get("echo") != 0 or not r.get("still_established"):
            ctx.fail("framing:requestor-read-keeps-connection-timeout",
                     f"requestor with connection_timeout {job[0]:.1f} s and network_timeout None; the peer's answers arrive in two pieces "
                     f"{job[1]:.1f} s apart (cut at byte {job[2]}): {r}", case)
    policy = "perChunk" if tr_timeouts.extract_idle() else "perPdu"
    model = ctx.lean([["idle.aborted", policy, 10, [[g, l] for g, l in p]] for p in plans])
    for plan, late, r, m in zip(plans, lates, results, model):
        case = ["idle", plan] + (["timeout-raised-after-start_server"] if late else [])
        total = sum(g for g, _ in plan)
        ctx.case(case, nontrivial=total > 10, kind="idle:" + ("over-T-in-total" if total > 10 else "short") + (":late-timeout" if late else ""))
        if "error" in r:
            ctx.diff(case, r, "n/a", "idle scenario failed")
            continue
        if r["aborted"] != (m == "T" or m is True):
            ctx.diff(case, {"aborted": r["aborted"], "answers": r["answers"]}, {"aborted": m}, "idle timer vs Model/Idle.lean")
        if r["aborted"]:
            ctx.fail("framing:aborted-as-idle-although-every-gap-below-network-timeout",
                     f"two C-ECHO-RQ PDUs sent in chunks {plan} (gap in tenths of the network timeout, last chunk of a PDU?): every gap is below "
                     f"the network timeout, yet the association was aborted (answers {r['answers']})", case)


def record_check(ctx):
    """Grouping of the peer's bytes into TLS records (Model/Wake.lean): a raw peer writes several complete requests in
    ONE write - one TLS record, one TCP segment - to a real acceptor and then waits; every one of them must be read
    and answered without any further byte from the peer (plain TCP as the control)."""
    import multiprocessing as mp

    from harness import poolinit
    from harness.props import c07

    jobs = [("coalesced", tls, lead, False) for tls in (False, True) for lead in ((2, 3) if ctx.quick else (2, 3, 5, 8, 16))]
    pool = mp.get_context("fork").Pool(processes=4, maxtasksperchild=1, initializer=poolinit.no_join_at_exit)
    try:
        results = pool.map(_record_job, jobs, chunksize=1)
    finally:
        pool.terminate()
        pool.join()
    from harness import rawpeer
    from translate import transport

    consults = transport.extract()[0] == "_HAS_SSL and isinstance(self.socket, ssl.SSLSocket)"
    size = len(rawpeer.c_echo_rq(1, 1))
    model = ctx.lean([["wake.run", tls, consults, [size] * lead, [size * lead]] for _, tls, lead, _ in jobs])
    for (_, tls, lead, _), r, m in zip(jobs, results, model):
        case = ["records", tls, lead]
        ctx.case(case, nontrivial=True, kind=f"records:{'tls' if tls else 'tcp'}:{lead}-requests-in-one-write")
        if "harness_error" in r or not r.get("established"):
            ctx.diff(case, r, "n/a", "scenario harness failed")
            continue
        if m != 0:
            ctx.diff(case, r, m, "the model strands a PDU where the code consults pending()")
        if r["echo_answers"] != lead:
            ctx.fail(f"framing:pdu-stranded:{'tls' if tls else 'tcp'}",
                     f"{'TLS' if tls else 'TCP'} peer wrote {lead} complete requests in one write and waited: {r['echo_answers']} answered "
                     f"(PDU types seen {r['pdus']})", case)


def _record_job(job):
    from harness.props import c07

    try:
        return c07.coalesced_scenario(job[1], job[2], release_in_same_write=job[3])
    except Exception:
        import traceback

        return {"harness_error": traceback.format_exc()[-800:]}


def run(ctx):
    ctx.rule = (
        "generated PDU streams (P-DATA-TF with 1-3 PDVs of 1..9000 bytes, release, abort), optional truncated tail or "
        "unrecognised type, random sender chunking with 0-10 ms gaps, random per-read caps; non-trivial = more than one "
        "chunk or a read of < 6 bytes"
    )
    ctx.assumptions.append("kernel/TCP behaviour enters only through the sequence of read results, which the theorem quantifies over")
    pending = []
    for _ in range(ctx.n(250, 6000)):
        check_case(ctx, gen_case(ctx.rng), pending)
    # scripted timeouts at a chosen read: must be reported closed, nothing delivered for that PDU
    for _ in range(ctx.n(40, 800)):
        c = gen_case(ctx.rng)
        c["timeout_at"] = ctx.rng.randrange(0, 6)
        c["expected"] = None  # decided by the model (correspondence) + oracle below
        c["kind"] = "timeout"
        frames, oracle = run_real(c["stream"], c["chunks"], c["gaps"], c["caps"], c["timeout_at"])
        case = ["frame", c["stream"], c["chunks"], c["caps"], c["timeout_at"]]
        ctx.case(case, kind="timeout")
        real = [f if f == "closed" else (["pdu", f[1]] if f[0] == "pdu" else [f[0]]) for f in frames]
        # oracle: what was delivered is a prefix of the PDUs sent, each complete, and the run ends closed
        delivered = b"".join(f[1] for f in real if isinstance(f, list) and f[0] == "pdu")
        if not c["stream"].startswith(delivered) or real[-1:] != ["closed"]:
            ctx.fail("framing:timeout", f"after a read timeout received {summ(real)}", case)
        pending.append((case, real, ["frame", c["stream"], oracle]))
    flush(ctx, pending)
    idle_check(ctx)
    record_check(ctx)
    if not ctx.quick:
        # small-scope exhaustive: a 5-PDU stream, every single cut + every close offset, byte-at-a-time reads
        rng = ctx.rng
        pdus = make_pdus(rng, 5)
        stream = b"".join(pdus)
        n = len(stream)
        step = max(1, n // 400)
        for close in range(0, n + 1, step):
            s = stream[:close]
            exp, off = [], 0
            for p in pdus:
                if off + len(p) > close:
                    break  # this PDU is cut by the close: nothing after it is delivered either
                exp.append(["pdu", p])
                off += len(p)
            exp.append("closed")
            for cut in sorted({1, 5, 6, 7, close // 2, close - 1}):
                if 0 < cut < close:
                    c = dict(stream=s, chunks=[cut, close - cut], gaps=[0, 0.001], caps=[1] * 12, expected=exp, kind="exhaustive-close", timeout_at=None)
                    check_case(ctx, c, pending)
        flush(ctx, pending)


def replay(ctx, case):
    c = case["case"]
    if c[0] == "records":
        r = _record_job(("coalesced", bool(c[1]), int(c[2]), False))
        print(r)
        return 0 if r.get("echo_answers") == int(c[2]) else 1
    if c[0] == "slow-answer":
        r = slow_answer_scenario(tuple(c[1]))
        print(r)
        return 0 if r.get("established") and r.get("echo") == 0 else 1
    if c[0] == "idle":
        r = idle_scenario((1.0, c[1], len(c) > 2))
        print(r)
        return 1 if r.get("aborted") else 0
    stream = bytes.fromhex(c[1][1:]) if isinstance(c[1], str) else c[1]
    chunks, caps = c[2], c[3]
    t = None if c[4] == "none" else c[4]
    frames, oracle = run_real(stream, chunks, [0.001] * len(chunks), caps, t)
    print("real :", summ([f if f == "closed" else list(f) for f in frames]))
    rep = ctx.lean([["frame", stream, oracle]])[0]
    print("model:", summ(rep))
    return 0
