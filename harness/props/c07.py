"""C07 — a peer's release request is always answered with a release response.

Real acceptor (pynetdicom AE with C-FIND / C-GET handlers that stop at gates) and a peer that puts
an A-RELEASE-RQ on the wire at a generated point: while idle, between two messages, before /
between / after the yields of a C-FIND or C-GET handler, or while a C-STORE sub-operation of the
C-GET is in flight.  The peer is a pynetdicom requestor whose provider is driven directly
(`dul.send_pdu(A_RELEASE())`), so the request is a real PDU on a real socket at that moment.
Observed: the PDU types the peer receives (A-RELEASE-RP = type 6 must appear), the acceptor's
outcome and terminal notifications, the number of Pending responses, and the time it took.
The same (n, arrival) is evaluated on the Lean model `Release.serve` and compared.
"""
from harness import poolinit as _e2e_exit
import threading
import time

from translate import release as tr_release

GEN = [tr_release.generate]


def run_find(n, arrival, kind, timeout=3.0, subop=None, bad_last=False):
    """kind: 'find' | 'get'.  arrival in 0..n: the release request is sent just before the handler's
    yield number `arrival` (arrival == n: after the last yield, before the handler returns);
    arrival == n + 1: right after the operation completed (between messages);
    arrival == n + 2: with no operation at all (idle).
    subop = (i, answers) (C-GET only; `arrival` is ignored): the release request is sent by the peer's C-STORE handler
    while sub-operation number i is in flight; the peer then answers the C-STORE (answers=True) or keeps quiet until
    the acceptor's DIMSE timeout has passed (answers=False)."""
    from io import BytesIO

    from pydicom.dataset import Dataset
    from pynetdicom import AE, evt, StoragePresentationContexts, build_role
    from pynetdicom.dimse_primitives import C_FIND, C_GET
    from pynetdicom.dsutils import encode
    from pynetdicom.pdu_primitives import A_RELEASE
    from pynetdicom.sop_class import (
        CTImageStorage, PatientRootQueryRetrieveInformationModelFind as F, PatientRootQueryRetrieveInformationModelGet as G,
    )

    from harness import e2e

    e2e.quiet()
    at_point = threading.Event()   # the handler reached the arrival point
    go = threading.Event()         # the release request has been sent: carry on
    acc = {}

    def ds_i(i):
        ds = Dataset()
        ds.PatientName, ds.PatientID, ds.QueryRetrieveLevel = f"P{i}", str(i), "PATIENT"
        ds.SOPClassUID, ds.SOPInstanceUID = CTImageStorage, f"1.2.3.{i + 1}"
        return ds

    sub_calls = []
    peer_done = threading.Event()

    def h_peer_store(event):
        k = len(sub_calls)
        sub_calls.append(k)
        if subop is not None and k == subop[0]:
            from pynetdicom.pdu_primitives import A_RELEASE as _REL

            event.assoc.dul.send_pdu(_REL())
            at_point.set()
            if not subop[1]:
                peer_done.wait(3 * timeout + 4.0)  # never answers while the scenario runs
        return 0x0000

    def wait_point(i):
        if subop is None and i == arrival:
            at_point.set()
            go.wait(timeout)
            # let the PDU reach the acceptor's provider: wait until its state machine has processed the request (a peer
            # that has asked for release may not answer sub-operations any more, so the handler must not run ahead)
            a_ = acc.get("assoc")
            t_w = time.monotonic()
            while a_ is not None and time.monotonic() - t_w < 2.0 and a_.dul.state_machine.current_state == "Sta6":
                time.sleep(0.002)
            time.sleep(0.01)

    def h_find(event):
        acc["assoc"] = event.assoc
        for i in range(n):
            wait_point(i)
            yield 0xFF00, ds_i(i)
        wait_point(n)

    def h_get(event):
        acc["assoc"] = event.assoc
        yield n
        for i in range(n):
            wait_point(i)
            d = ds_i(i)
            from pydicom.dataset import FileMetaDataset
            from pydicom.uid import ImplicitVRLittleEndian

            d.file_meta = FileMetaDataset()
            d.file_meta.TransferSyntaxUID = ImplicitVRLittleEndian
            if bad_last and i == n - 1:
                d.add_new(0x00280010, "US", "abc")  # cannot be encoded: this sub-operation fails before anything is sent
            yield 0xFF00, d
        wait_point(n)

    released, aborted = [], []
    ae = AE()
    ae.acse_timeout = ae.dimse_timeout = ae.network_timeout = timeout
    if subop is not None:
        # only the DIMSE timeout is short: an abort for any other reason would make the case vacuous
        ae.acse_timeout = ae.network_timeout = 30
    ae.add_supported_context(F)
    ae.add_supported_context(G)
    ae.add_supported_context(CTImageStorage, scu_role=True, scp_role=True)
    srv = ae.start_server(
        ("127.0.0.1", 0), block=False,
        evt_handlers=[(evt.EVT_C_FIND, h_find), (evt.EVT_C_GET, h_get),
                      (evt.EVT_RELEASED, lambda e: released.append(1)), (evt.EVT_ABORTED, lambda e: aborted.append(1)),
                      # an observer of the state machine that takes its time (a state logger doing I/O): notification
                      # handlers run between an action and the state change, which must not open a window for anyone
                      (evt.EVT_FSM_TRANSITION, (lambda e: time.sleep(0.03)) if (n + arrival) % 2 == 1 else (lambda e: None)),
                      (evt.EVT_ESTABLISHED, lambda e: acc.__setitem__("assoc", e.assoc))],
    )
    port = srv.socket.getsockname()[1]
    seen, pend = [], []
    cl = AE()
    cl.acse_timeout = cl.dimse_timeout = cl.network_timeout = timeout
    cl.add_requested_context(F)
    cl.add_requested_context(G)
    cl.add_requested_context(CTImageStorage)
    t0 = time.monotonic()
    a = cl.associate(
        "127.0.0.1", port, ext_neg=[build_role(CTImageStorage, scp_role=True)],
        evt_handlers=[(evt.EVT_PDU_RECV, lambda e: seen.append(type(e.pdu).__name__)), (evt.EVT_C_STORE, h_peer_store)],
    )
    out = {"established": a.is_established}
    try:
        if not a.is_established:
            return out
        ident = Dataset()
        ident.QueryRetrieveLevel, ident.PatientName = "PATIENT", "*"

        def consume():
            try:
                gen = a.send_c_find(ident, F) if kind == "find" else a.send_c_get(ident, G)
                for st, _ in gen:
                    if st and getattr(st, "Status", None) in (0xFF00, 0xFF01):
                        pend.append(1)
                    out["last_status"] = getattr(st, "Status", None) if st else None
            except Exception as exc:  # the requestor side is being driven out of band: tolerate
                out["scu_exc"] = repr(exc)

        th = None
        if subop is not None:
            th = threading.Thread(target=consume, daemon=True)
            th.start()
            at_point.wait(timeout)
        elif arrival <= n:
            th = threading.Thread(target=consume, daemon=True)
            th.start()
            at_point.wait(timeout)
        elif arrival == n + 1:
            consume()
        # the release request goes on the wire now (sub-operation arrivals: the C-STORE handler has sent it)
        if subop is None:
            a.dul.send_pdu(A_RELEASE())
        go.set()
        deadline = time.monotonic() + (timeout + 1.0 if subop is None or subop[1] else 2 * timeout + 2.0)
        while time.monotonic() < deadline and "A_RELEASE_RP" not in seen and "A_ABORT_RQ" not in seen:
            time.sleep(0.01)
        if th is not None:
            th.join(timeout + 1.0)
        time.sleep(0.1)
        out.update(
            rp="A_RELEASE_RP" in seen, abort_seen="A_ABORT_RQ" in seen, subops=len(sub_calls), pdus=list(seen), pending=len(pend), wall=time.monotonic() - t0,
            acc_released=bool(acc.get("assoc") and acc["assoc"].is_released),
            acc_aborted=bool(acc.get("assoc") and acc["assoc"].is_aborted),
            n_released=len(released), n_aborted=len(aborted),
        )
        return out
    finally:
        peer_done.set()
        try:
            a.abort()
        except Exception:
            pass
        srv.shutdown()


def coalesced_scenario(tls, lead, release_in_same_write=True):
    """A raw peer (plain TCP or TLS) associates with a pynetdicom acceptor and then writes, in ONE write (one TLS
    record), `lead` C-ECHO requests followed directly by its A-RELEASE-RQ.  The release request is the peer's last
    PDU: if the acceptor leaves it unread in a buffer nothing will ever wake it."""
    import os
    import socket
    import ssl

    from harness import common, e2e, rawpeer
    from pynetdicom import AE, evt
    from pynetdicom.sop_class import Verification

    e2e.quiet()
    released, aborted = [], []
    ae = AE(ae_title="ANY-SCP")
    ae.add_supported_context(Verification)
    ae.acse_timeout = ae.dimse_timeout = ae.network_timeout = 3.0
    sctx = None
    if tls:
        certs = os.path.join(common.REPO, "pynetdicom", "tests", "cert_files")
        sctx = ssl.SSLContext(ssl.PROTOCOL_TLS_SERVER)
        sctx.load_cert_chain(os.path.join(certs, "server.crt"), os.path.join(certs, "server.key"))
    srv = ae.start_server(("127.0.0.1", 0), block=False, ssl_context=sctx, evt_handlers=[
        (evt.EVT_C_ECHO, lambda e: 0), (evt.EVT_RELEASED, lambda e: released.append(1)), (evt.EVT_ABORTED, lambda e: aborted.append(1))])
    s = socket.create_connection(("127.0.0.1", srv.socket.getsockname()[1]), timeout=5.0)
    try:
        if tls:
            cctx = ssl.SSLContext(ssl.PROTOCOL_TLS_CLIENT)
            cctx.check_hostname = False
            cctx.verify_mode = ssl.CERT_NONE
            s = cctx.wrap_socket(s)

        def read_pdu(timeout):
            s.settimeout(timeout)
            buf = b""
            try:
                while len(buf) < 6:
                    d = s.recv(6 - len(buf))
                    if not d:
                        return None
                    buf += d
                n = int.from_bytes(buf[2:6], "big")
                while len(buf) < 6 + n:
                    d = s.recv(6 + n - len(buf))
                    if not d:
                        return None
                    buf += d
            except (socket.timeout, OSError):
                return None
            return buf

        s.sendall(rawpeer.build_rq(b"ANY-SCP".ljust(16), b"RAW-PEER".ljust(16)))
        ac = read_pdu(5.0)
        if ac is None or ac[0] != 2:
            return {"harness_error": f"no A-ASSOCIATE-AC ({ac[:1] if ac else None})"}
        s.sendall(b"".join(rawpeer.c_echo_rq(1, i + 1) for i in range(lead)) + (rawpeer.RELEASE_RQ if release_in_same_write else b""))
        pdus = []
        t0 = time.monotonic()
        while time.monotonic() - t0 < 2.5:
            if not release_in_same_write and pdus.count(4) == lead:
                break  # every request written in the one record has been answered
            p_ = read_pdu(2.5 - (time.monotonic() - t0))
            if p_ is None:
                break
            pdus.append(p_[0])
            if p_[0] in (6, 7):
                break
        if not release_in_same_write:
            s.sendall(rawpeer.RELEASE_RQ)
            p_ = read_pdu(2.5)
            if p_ is not None:
                pdus.append(p_[0])
        time.sleep(0.1)
        return {"established": True, "pdus": pdus, "rp": 6 in pdus, "echo_answers": pdus.count(4),
                "acc_released": bool(released), "acc_aborted": bool(aborted), "n_released": len(released)}
    finally:
        try:
            s.close()
        except OSError:
            pass
        srv.shutdown()


def _job(args):
    if args[0] == "coalesced":
        box = {}

        def body2():
            try:
                box["r"] = coalesced_scenario(args[1], args[2])
            except Exception:
                import traceback

                box["r"] = {"harness_error": traceback.format_exc()[-1200:]}

        th = threading.Thread(target=body2, daemon=True)
        th.start()
        th.join(25)
        return box.get("r", {"hang": True})
    n, arrival, kind = args[:3]
    subop = args[3] if len(args) > 3 else None
    bad_last = subop == "bad-last"
    if bad_last:
        subop = None
    box = {}

    def body():
        try:
            box["r"] = run_find(n, arrival, kind, timeout=1.0 if subop else 3.0, subop=subop, bad_last=bad_last)
        except Exception:
            import traceback

            box["r"] = {"harness_error": traceback.format_exc()[-1200:]}

    th = threading.Thread(target=body, daemon=True)
    th.start()
    th.join(25)
    return box.get("r", {"hang": True})


def run(ctx):
    import multiprocessing as mp

    ctx.rule = (
        "service in {C-FIND, C-GET} x handler yields n in 0..3 x arrival point of the peer's A-RELEASE-RQ in 0..n+2 "
        "(before yield k / after the last yield / between messages / idle); non-trivial = arrival inside the handler loop"
    )
    ctx.assumptions.append("the arrival point is positioned with gates in the handler plus a 50 ms settle time for the PDU to reach the provider")
    jobs = []
    for kind in ("find", "get"):
        for n in (0, 1, 2, 3):
            for arrival in range(0, n + 3):
                jobs.append((n, arrival, kind))
    if ctx.quick:
        ctx.rng.shuffle(jobs)
        jobs = jobs[:24]
    else:
        jobs = jobs * 6
    # the release request arrives while a C-STORE sub-operation of the C-GET is in flight
    # (a peer that has requested release may not send P-DATA any more, PS3.8 Sta7: it cannot answer the sub-operation,
    # so only the never-answered variant is a conformant peer)
    sub = [(n, 0, "get", (i, False)) for n in (1, 2, 3) for i in range(n)]
    if ctx.quick:
        sub = [j for j in sub if j[0] <= 2]
    jobs += sub
    # the release request arrives after a C-GET whose last sub-operation could not even be encoded (an exception path
    # of the acceptor's own send_c_store): the reactor must be running again afterwards
    jobs += [(n, n + 1, "get", "bad-last") for n in (1, 2)]
    # the release request shares a write (a TLS record) with the PDUs before it
    co = [("coalesced", tls, lead) for tls in (False, True) for lead in ((0, 1, 3) if ctx.quick else (0, 1, 2, 3, 8))]
    pool = mp.get_context("fork").Pool(processes=12, maxtasksperchild=10, initializer=_e2e_exit.no_join_at_exit)
    try:
        results = pool.map(_job, jobs, chunksize=1)
        co_results = pool.map(_job, co, chunksize=1)
    finally:
        pool.terminate()
        pool.join()
    for job, r in zip(co, co_results):
        _, tls, lead = job
        case = ["coalesced", tls, lead]
        ctx.case(case, nontrivial=lead > 0, kind=f"coalesced:{'tls' if tls else 'tcp'}:{lead}-requests-then-release")
        if r.get("hang") or "harness_error" in r or not r.get("established"):
            ctx.diff(case, r, "n/a", "scenario harness failed")
        elif not r["rp"] or not r["acc_released"] or r["acc_aborted"]:
            # (requests still queued when the release request is met are dropped: not this property's business)
            ctx.fail(f"release-not-answered:coalesced:{'tls' if tls else 'tcp'}",
                     f"{'TLS' if tls else 'TCP'} peer writes {lead} C-ECHO request(s) and its A-RELEASE-RQ in one write: it saw PDU types "
                     f"{r['pdus']}; acceptor released={r['acc_released']} aborted={r['acc_aborted']}", case)
    # a sub-operation arrival that the peer then answers is, for the handler loop, an arrival before the next yield
    model = ctx.lean([["release.serve", j[0], (j[3][0] + 1 if len(j) > 3 and j[3] != "bad-last" else j[1]), False] for j in jobs])
    for job, r, m in zip(jobs, results, model):
        n, arrival, kind = job[:3]
        subop = job[3] if len(job) > 3 else None
        if subop == "bad-last":
            subop = None
            case = ["release", kind, n, arrival, "bad-last"]
            ctx.case(case, nontrivial=True, kind="get:between:after-unencodable-sub-operation")
            if r.get("hang") or "harness_error" in r or not r.get("established"):
                ctx.diff(case, r, "n/a", "scenario harness failed")
            elif not r["rp"] or not r["acc_released"] or r["acc_aborted"]:
                ctx.fail("release-not-answered:get:after-failed-sub-operation",
                         f"get n={n}, last sub-operation unencodable, release request after the operation: peer saw {r['pdus']}, "
                         f"acceptor released={r['acc_released']} aborted={r['acc_aborted']}", case)
            continue
        case = ["release", kind, n, arrival] + ([list(subop)] if subop else [])
        if subop:
            ctx.case(case, nontrivial=True, kind=f"get:sub-operation:{'answered' if subop[1] else 'never-answered'}")
        else:
            ctx.case(case, nontrivial=arrival <= n, kind=f"{kind}:{'in-loop' if arrival <= n else ('between' if arrival == n + 1 else 'idle')}")
        if r.get("hang") or "harness_error" in r or not r.get("established"):
            ctx.diff(case, r, "n/a", "scenario harness failed")
            continue
        if subop and not subop[1]:
            # the peer never answers the sub-operation: pynetdicom may abort (DIMSE timeout) - the case the property
            # excludes - but it must not stay established with the release request swallowed
            if not (r["abort_seen"] or r["acc_aborted"]) and not (r["rp"] and r["acc_released"]):
                ctx.fail("release-not-answered:get:sub-operation-timeout",
                         f"get n={n}: release request sent during sub-operation {subop[0]} (never answered): the peer saw {r['pdus']}; "
                         f"the acceptor neither answered the release nor aborted (released={r['acc_released']} aborted={r['acc_aborted']})", case)
            continue
        m_pending, m_final, m_rp, m_rel = m[0], m[1] == "T", m[2] == "T", m[3] == "T"
        # property oracle on the real run
        if not r["rp"] or not r["acc_released"] or r["acc_aborted"] or r["n_released"] != 1:
            ctx.fail(
                f"release-not-answered:{kind}:{'in-loop' if arrival <= n else 'outside'}",
                f"{kind} n={n} arrival={arrival}: peer saw {r['pdus']}, acceptor released={r['acc_released']} aborted={r['acc_aborted']} EVT_RELEASED x{r['n_released']}",
                case,
            )
        # correspondence with the model: release answered, and for in-loop arrivals the handler was stopped early
        if (r["rp"], r["acc_released"]) != (m_rp, m_rel):
            ctx.diff(case, [r["rp"], r["acc_released"]], [m_rp, m_rel])
        if kind == "find" and arrival <= n and r["pending"] > m_pending:
            ctx.diff(case, {"pending": r["pending"]}, {"pending": m_pending}, "more Pending responses than the model allows after the release request")


def replay(ctx, case):
    c = case["case"]
    if c[0] == "coalesced":
        r = coalesced_scenario(bool(c[1]), int(c[2]))
        print(r)
        return 0 if r.get("rp") and r.get("acc_released") and not r.get("acc_aborted") else 1
    kind, n, arrival = c[1], c[2], c[3]
    bad_last = len(c) > 4 and c[4] == "bad-last"
    subop = tuple(c[4]) if len(c) > 4 and not bad_last else None
    r = run_find(n, arrival, kind, timeout=1.0 if subop else 3.0, subop=subop, bad_last=bad_last)
    if subop and not subop[1]:
        print(r)
        return 0 if (r.get("abort_seen") or r.get("acc_aborted") or (r.get("rp") and r.get("acc_released"))) else 1
    print(r)
    return 0 if r.get("rp") and r.get("acc_released") else 1
