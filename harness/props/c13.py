"""C13 — associations are established only when the acceptance policy allows them.

End-to-end: a scripted raw-socket peer (harness/rawpeer.py) sends A-ASSOCIATE-RQ
PDUs whose 16-byte called/calling title fields are generated raw bytes to a real
`ae.start_server(..., block=False)` acceptor under every policy configuration,
reads the AC / RJ / ABORT, then sends a C-ECHO request and observes whether any
DIMSE handler fires.  The same case goes through the Lean model
(`assoc.policy`, Model/Policy.lean) and the outcomes are compared; the property
itself (spaces-only padding, documented RJ triples, no handler after a reject)
is evaluated directly on what the real acceptor did.
"""
from __future__ import annotations

import threading
import time

from harness import rawpeer as rp

LEVEL = "proof"

BASE = b"ABC"
OWN = b"SCP"
CTLWS = [0x09, 0x0A, 0x0B, 0x0C, 0x0D, 0x1C, 0x1D, 0x1E, 0x1F]
PYWS = bytes([0x20] + CTLWS)  # what str.strip() removes from an ASCII string
DOCUMENTED = {"calling": (1, 1, 3), "called": (1, 1, 7), "identity": (2, 2, 1), "limit": (2, 3, 2)}
# verdicts a handler may give: the literals, a raise, and falsy / truthy values that are not the literals (what
# `return PATTERN.fullmatch(name), None` or `return USERS.get(name), None` produce): only a positive verdict admits
HANDLERS = ["absent", "true", "false", "raise", "resp", "falsy-none", "falsy-zero", "falsy-empty", "truthy-object"]
FALSY = {"falsy-none": None, "falsy-zero": 0, "falsy-empty": ""}


# --------------------------------------------------------------------------
# generators
# --------------------------------------------------------------------------
def gen_field(rng, good: bytes):
    """-> (16 raw bytes, kind)"""
    r = rng.random()
    if r < 0.40:
        core, kind = good, "match"
    elif r < 0.50:
        core, kind = good.lower() if rng.random() < 0.5 else good.swapcase(), "case"
    elif r < 0.58:
        i = rng.randrange(1, len(good))
        core, kind = good[:i] + b" " + good[i:], "embedded-space"
    elif r < 0.66:
        core, kind = rng.choice([good[:-1], good + b"D", b"XYZ", good[::-1], b"ABCDEFGHIJKLMNOP"]), "other"
    elif r < 0.74:
        # control whitespace next to the padding (str.strip() removes it)
        n = rng.randrange(1, 3)
        ws = bytes(rng.choice(CTLWS) for _ in range(n))
        core = rng.choice([ws + good, good + ws, ws + good + ws])
        kind = "edge-control-ws"
    elif r < 0.78:
        i = rng.randrange(1, len(good))
        core, kind = good[:i] + bytes([rng.choice(CTLWS)]) + good[i:], "inner-control"
    elif r < 0.83:
        core = rng.choice([good + b"\x00" * rng.randrange(1, 5), b"\x00" + good, good[:1] + b"\x00" + good[1:]])
        kind = "nul"
        if rng.random() < 0.5:  # NUL padding to the end of the field
            return (core + b"\x00" * 16)[:16], kind
    elif r < 0.86:
        core, kind = rng.choice([good + b"\\", good + b"\x7f", good + b"\xe9", b"\x80" + good]), "illegal-char"
    elif r < 0.89:
        return rng.choice([b" " * 16, b"\x00" * 16, b"\t" * 16, b" " * 15 + b"\n"]), "blank"
    else:
        core, kind = good, "match"
    core = core[:16]
    room = 16 - len(core)
    left = rng.choice([0, 0, 0, 1, 2, room]) if room else 0
    left = min(left, room)
    if left:
        kind += "+lpad"
    return b" " * left + core + b" " * (room - left), kind


def gen_case(rng):
    rc = rng.random()
    if rc < 0.30:
        req = []
    elif rc < 0.50:
        req = [BASE]
    elif rc < 0.62:
        req = [b"  " + BASE + b" "]
    elif rc < 0.76:
        req = [b"XYZ", BASE] if rng.random() < 0.6 else [b"XYZ", b" Q ", BASE + b"   "]
    else:
        req = [b"XYZ"] if rng.random() < 0.7 else [b"abc", b"A BC"]
    own = rng.choice([OWN, OWN, b" " + OWN + b"  ", OWN])
    rcalled = rng.random() < 0.55
    calling, k1 = gen_field(rng, BASE)
    called, k2 = gen_field(rng, OWN)
    if req and rng.random() < 0.14:
        # a proper fragment of a listed title, or of the list rendered as text (any separator):
        # list membership, not containment, is what the policy means
        titles = [t.strip() for t in req]
        joined = rng.choice([b", ", b",", b" ", b"\\", b"', '"]).join(titles)
        src = rng.choice(titles + [joined, joined])
        i = rng.randrange(0, len(src))
        j = rng.randrange(i + 1, len(src) + 1)
        frag = src[i:j].strip()[:16]
        if frag and frag not in titles:
            room = 16 - len(frag)
            left = min(rng.choice([0, 0, 1]), room)
            calling, k1 = b" " * left + frag + b" " * (room - left), "fragment-of-list"
    if rng.random() < 0.45:
        ident = None
    else:
        ident = [rng.randrange(1, 6), rng.random() < 0.5, rng.choice(HANDLERS)]
    m = rng.choice([1, 1, 2, 3])
    k = 0 if rng.random() < 0.82 else rng.choice([1, 1, 2, 3])
    return ["policy", req, rcalled, own, m, calling, called, ident, k], f"calling:{k1}|called:{k2}"


# --------------------------------------------------------------------------
# one worker = one real AE + server; the policy is re-set before each run
# --------------------------------------------------------------------------
class Worker:
    def __init__(self):
        from pynetdicom import AE, evt

        self.evt = evt
        self.fired = []
        self.fired_id = []
        self.ae = AE(ae_title="SCP")
        self.ae.add_supported_context(rp.VERIFICATION)
        self.ae.acse_timeout = 0.4
        self.ae.network_timeout = 10
        self.mode = "absent"
        self.bound = False
        self.current = None
        self.srv = self.ae.start_server(
            ("127.0.0.1", 0),
            block=False,
            evt_handlers=[
                (evt.EVT_C_ECHO, self.on_echo),
                (evt.EVT_C_STORE, self.on_other),
                (evt.EVT_C_FIND, self.on_other),
            ],
        )
        self.addr = self.srv.server_address

    def on_echo(self, event):
        self.fired.append("C-ECHO")
        return 0x0000

    def on_other(self, event):
        self.fired.append("other")
        return 0xC000

    def on_user_id(self, event):
        self.fired_id.append(event.user_id_type)
        if self.mode == "true":
            return True, None
        if self.mode in FALSY:
            return FALSY[self.mode], None
        if self.mode == "truthy-object":
            return ["match"], None
        if self.mode == "false":
            return False, None
        if self.mode == "resp":
            return True, b"SERVER-RESPONSE"
        raise RuntimeError("identity handler raises")

    def drain(self, n=0, limit=5.0):
        t0 = time.monotonic()
        while len(self.ae.active_associations) > n:
            if time.monotonic() - t0 > limit:
                return False
            time.sleep(0.002)
        return True

    def set_policy(self, req, rcalled, own, m, mode):
        evt = self.evt
        self.ae.require_calling_aet = [t.decode("ascii") for t in req]
        self.ae.require_called_aet = rcalled
        self.srv.ae_title = own.decode("ascii")
        self.ae.maximum_associations = m
        if mode == "absent":
            if self.bound:
                self.srv.unbind(evt.EVT_USER_ID, self.current)
                self.bound = False
        else:
            # a fresh handler object every time; when one is already bound it is swapped the way handlers are swapped
            # in a running server: bind the replacement, then unbind the stale one (which is no longer bound - the
            # unbind must not disturb the replacement)
            fresh = (lambda w: (lambda event: w.on_user_id(event)))(self)
            stale = self.current if self.bound else None
            self.srv.bind(evt.EVT_USER_ID, fresh)
            if stale is not None:
                self.srv.unbind(evt.EVT_USER_ID, stale)
            self.current = fresh
            self.bound = True
        self.mode = mode

    def run(self, case):
        _, req, rcalled, own, m, calling, called, ident, k = case
        held = []
        if k:
            self.set_policy([], False, OWN, 100, "absent")
            for _ in range(k):
                p = rp.RawPeer(self.addr)
                p.send(rp.build_rq(OWN.ljust(16), BASE.ljust(16)))
                if rp.classify(p.recv_pdu(5.0)) != ["accept"]:
                    raise RuntimeError("could not establish a held association")
                held.append(p)
            # established associations: their threads are alive
        mode = ident[2] if ident else "absent"
        # late: the peer has already connected (its acceptor thread is waiting for the A-ASSOCIATE-RQ) when the policy
        # handler is bound on the running server - the bind must reach that association too
        late = mode != "absent" and (sum(calling) + len(req)) % 3 == 0
        uid = None
        if ident:
            uid = (ident[0], b"user", b"secret", ident[1])
        if late:
            self.set_policy(req, rcalled, own, m, "absent")
            peer = rp.RawPeer(self.addr)
            t0 = time.monotonic()
            while len(self.ae.active_associations) <= len(held) and time.monotonic() - t0 < 1.0:
                time.sleep(0.002)
            self.set_policy(req, rcalled, own, m, mode)
        else:
            self.set_policy(req, rcalled, own, m, mode)
            peer = rp.RawPeer(self.addr)
        del self.fired[:]
        self.fired_id = []
        peer.send(rp.build_rq(called, calling, user_identity=uid))
        first = peer.recv_pdu(5.0)
        verdict = rp.classify(first)
        idresp = False
        if verdict == ["accept"]:
            tree = rp.parse_assoc(first[1])
            idresp = any(t == 0x59 for sub in tree["user"] for t, _ in sub)
        # whatever the answer was, try to get a DIMSE service
        peer.send(rp.c_echo_rq(1, 7))
        second = peer.recv_pdu(5.0 if verdict == ["accept"] else 0.3)
        echo_answered = second[0] == 4
        if verdict == ["accept"]:
            peer.send(rp.RELEASE_RQ)
            peer.recv_pdu(5.0)
        peer.close()
        ok = self.drain(len(held))
        for p in held:
            p.send(rp.ABORT)
            p.close()
        ok = self.drain(0) and ok
        return {
            "verdict": verdict,
            "fired": list(self.fired),
            "echo_answered": echo_answered,
            "idresp": idresp,
            "id_handler_calls": len(self.fired_id),
            "drained": ok,
        }

    def stop(self):
        try:
            self.srv.shutdown()
        except Exception:
            pass


# --------------------------------------------------------------------------
# the property's oracle (spaces-only padding; written from the statement)
# --------------------------------------------------------------------------
def sp(b: bytes) -> bytes:
    return b.strip(b" ")


def failed_checks(case):
    _, req, rcalled, own, m, calling, called, ident, k = case
    f = set()
    if req and sp(calling) not in [sp(t) for t in req]:
        f.add("calling")
    if rcalled and sp(called) != sp(own):
        f.add("called")
    if ident and (ident[2] in ("false", "raise") or ident[2] in FALSY):
        f.add("identity")
    if k + 1 > m:
        f.add("limit")
    return f


def oracle(ctx, case, obs, kind):
    failed = failed_checks(case)
    v = obs["verdict"]
    if v == ["accept"]:
        for c in sorted(failed):
            what = f"established although the {c} check fails: {ctx_repr(case)}"
            if c in ("calling", "called"):
                fld = case[5] if c == "calling" else case[6]
                if fld.strip(PYWS) != sp(fld):  # matched only because str.strip() removed control whitespace
                    ctx.fail("c13:accept:title-matches-only-after-stripping-control-whitespace", what, case)
                    continue
            ctx.fail(f"c13:accept-despite-failed-{c}-check", what, case)
    elif v[0] == "reject":
        triple = tuple(v[1:])
        allowed = {DOCUMENTED[c] for c in failed}
        if not failed:
            # refused although the stated policy admits it: not forbidden by C13 (only-if), but the
            # triple must still be a documented one
            if triple not in DOCUMENTED.values():
                ctx.fail(f"c13:undocumented-reject-triple:{triple}", f"A-ASSOCIATE-RJ {triple}: {ctx_repr(case)}", case)
        elif triple not in allowed:
            ctx.fail(
                f"c13:reject-triple-of-no-failed-check:{triple}",
                f"A-ASSOCIATE-RJ {triple} but the failed checks are {sorted(failed)}: {ctx_repr(case)}",
                case,
            )
    if v != ["accept"] and (obs["fired"] or obs["echo_answered"]):
        ctx.fail(
            "c13:dimse-handler-ran-without-established-association",
            f"verdict {v} but handlers {obs['fired']} ran / echo answered={obs['echo_answered']}: {ctx_repr(case)}",
            case,
        )


def ctx_repr(case):
    _, req, rcalled, own, m, calling, called, ident, k = case
    return (
        f"require_calling={req} require_called={rcalled} ae_title={own!r} max={m} "
        f"calling={calling!r} called={called!r} identity={ident} held={k}"
    )


def lean_req(case):
    _, req, rcalled, own, m, calling, called, ident, k = case
    if ident is None:
        i = None
    else:
        h = {
            "absent": "notBound",
            "raise": "raises",
            "true": ["returns", True, False],
            "false": ["returns", False, False],
            "resp": ["returns", True, True],
            "falsy-none": ["returns", False, False],
            "falsy-zero": ["returns", False, False],
            "falsy-empty": ["returns", False, False],
            "truthy-object": ["returns", True, False],
        }[ident[2]]
        i = [ident[0], bool(ident[1]), h]
    return ["assoc.policy", list(req), bool(rcalled), own, m, calling, called, i, k + 1]


def canon_model(rep):
    out, loop, idr = rep
    if out == "accept":
        v = ["accept"]
    elif out == "invalid":
        v = ["abort"]
    else:
        v = ["reject", *out[1:]]
    return [v, loop == "T", idr == "T"]


def canon_impl(obs):
    v = obs["verdict"]
    if v[0] == "abort":
        v = ["abort"]
    return [v, bool(obs["echo_answered"] and obs["fired"] == ["C-ECHO"]), bool(obs["idresp"])]


def run_cases(ctx, cases, nworkers=8):
    rp.quiet()
    results = [None] * len(cases)
    errors = []
    idx = iter(range(len(cases)))
    lock = threading.Lock()

    def work():
        w = Worker()
        try:
            while True:
                with lock:
                    i = next(idx, None)
                if i is None:
                    return
                try:
                    results[i] = w.run(cases[i][0])
                except Exception as e:  # noqa: BLE001
                    errors.append((i, repr(e)))
                    w.stop()
                    w = Worker()
        finally:
            w.stop()

    ts = [threading.Thread(target=work, daemon=True) for _ in range(min(nworkers, max(1, len(cases))))]
    for t in ts:
        t.start()
    for t in ts:
        t.join()
    return results, errors


FIXED = [
    # the four documented rejections, the precedence of later checks, padding on both sides
    ["policy", [BASE], True, OWN, 1, b"ABC".ljust(16), b"SCP".ljust(16), None, 0],
    ["policy", [b" ABC  "], True, b" SCP ", 1, b"   ABC".ljust(16), b"SCP".rjust(16), None, 0],
    ["policy", [BASE], True, OWN, 1, b"abc".ljust(16), b"SCP".ljust(16), None, 0],
    ["policy", [BASE], True, OWN, 1, b"ABC".ljust(16), b"scp".ljust(16), None, 0],
    ["policy", [BASE], True, OWN, 1, b"abc".ljust(16), b"scp".ljust(16), None, 0],
    ["policy", [BASE], True, OWN, 1, b"abc".ljust(16), b"scp".ljust(16), [1, False, "false"], 0],
    ["policy", [BASE], True, OWN, 1, b"abc".ljust(16), b"scp".ljust(16), [2, True, "raise"], 1],
    ["policy", [], False, OWN, 2, b"ABC".ljust(16), b"SCP".ljust(16), [3, True, "resp"], 1],
    ["policy", [], False, OWN, 2, b"ABC".ljust(16), b"SCP".ljust(16), [1, True, "resp"], 2],
    ["policy", [], False, OWN, 1, b"ABC".ljust(16), b"SCP".ljust(16), [4, True, "absent"], 0],
    ["policy", [BASE], False, OWN, 1, b"\tABC".ljust(16), b"SCP".ljust(16), None, 0],
    ["policy", [BASE], False, OWN, 1, b"ABC\x00".ljust(16, b"\x00"), b"SCP".ljust(16), None, 0],
    ["policy", [], False, OWN, 1, b" " * 16, b"SCP".ljust(16), None, 0],
]


def bind_check(ctx):
    """bind() / unbind() sequences on real objects against Model/Bind.lean: which handler ends up bound to EVT_USER_ID
    (an intervention event: one handler) and to EVT_ESTABLISHED (a notification event: a list) on an Association and
    on an AssociationServer."""
    from pynetdicom import AE, evt
    from pynetdicom.association import Association
    from pynetdicom.events import get_default_handler

    hs = {k: (lambda k: (lambda event: (True, None)))(k) for k in range(1, 6)}
    ident = {id(f): k for k, f in hs.items()}
    ident[id(get_default_handler(evt.EVT_USER_ID))] = 0
    ae = AE()
    ae.add_supported_context("1.2.840.10008.1.1")
    srv = ae.start_server(("127.0.0.1", 0), block=False)
    try:
        jobs = []
        for i in range(ctx.n(200, 3000)):
            n = ctx.rng.choice([1, 2, 3, 3, 4, 6, 9])
            ops = [[ctx.rng.choice(["bind", "bind", "unbind"]), ctx.rng.randint(1, 4)] for _ in range(n)]
            if i % 7 == 0:
                ops = [["bind", 1], ["bind", 2], ["unbind", 1]] + ops[: n - 2]  # swap the handler, then go on
            jobs.append((ctx.rng.choice(["assoc", "server"]), ctx.rng.choice(["I", "N"]), ops))
        model = ctx.lean([["bind.run", kind, [[o, h] for o, h in ops]] for _, kind, ops in jobs])
        for (where, kind, ops), m in zip(jobs, model):
            obj = Association(AE(), "requestor") if where == "assoc" else srv
            ev = evt.EVT_USER_ID if kind == "I" else evt.EVT_ESTABLISHED
            for o, h in ops:
                (obj.bind if o == "bind" else obj.unbind)(ev, hs[h])
            got = obj.get_handlers(ev)
            if kind == "I":
                real = ident.get(id(got[0]), -1)
                want = m
            else:
                real = [ident.get(id(g[0]), -1) for g in got]
                want = list(m)
            case = ["bind", where, kind, ops]
            ctx.case(case, nontrivial=len(ops) >= 3, kind=f"bind:{where}:{kind}")
            if real != want:
                ctx.diff(case, real, want, "bound handler(s) after the bind/unbind sequence")
            if kind == "I":
                # the property's concern, stated on the implementation alone: the handler of the last bind() is the bound
                # one unless it was itself unbound afterwards
                last = max((i for i, (o, _) in enumerate(ops) if o == "bind"), default=None)
                if last is not None:
                    h = ops[last][1]
                    expect = 0 if ["unbind", h] in ops[last + 1:] else h
                    if real != expect:
                        ctx.fail("c13:policy-handler-lost", f"{where}: after {ops} EVT_USER_ID is bound to handler {real}, "
                                 f"the last bind() was of {h}" + (" (unbound afterwards)" if expect == 0 else ""), case)
            # leave the server as it was
            if where == "server":
                for k in range(1, 6):
                    obj.unbind(ev, hs[k])
    finally:
        srv.shutdown()


def run(ctx):
    ctx.rule = (
        "e2e: generated (policy, raw 16-byte calling/called fields, identity item + EVT_USER_ID handler behaviour, "
        "held associations) against a real threaded acceptor over loopback via a raw-socket peer, followed by a C-ECHO "
        "request; non-trivial = at least one policy check active (required list / called check / identity item / held "
        "associations) and a decodable request"
    )
    ctx.assumptions.append(
        "C13: real sockets/threads are exercised, not modelled; the e2e runs sample the input space, the theorems quantify "
        "over the model of _negotiate_as_acceptor/run_reactor"
    )
    n = ctx.n(240, 4000)
    cases = [(c, "fixed") for c in FIXED]
    while len(cases) < n:
        cases.append(gen_case(ctx.rng))
    results, errors = run_cases(ctx, cases)
    model = ctx.lean([lean_req(c) for c, _ in cases])
    for (case, kind), obs, rep in zip(cases, results, model):
        if obs is None:
            continue
        active = bool(case[1]) or case[2] or case[7] is not None or case[8] > 0
        ctx.case(case, nontrivial=active and obs["verdict"][0] != "abort", kind=f"{obs['verdict'][0]}|{kind}")
        oracle(ctx, case, obs, kind)
        if not obs["drained"]:
            ctx.diff(case, "association threads did not end", "ends", what="acceptor threads still alive 5 s after the run")
        if canon_impl(obs) != canon_model(rep):
            ctx.diff(case, canon_impl(obs), canon_model(rep))
    for i, e in errors:
        ctx.diff(cases[i][0], e, "no exception", what="harness could not drive the acceptor")
    ctx.extra["workers"] = 8
    bind_check(ctx)


def search(ctx):
    """model and implementation disagree (or a theorem broke): hunt for an input on which the real
    acceptor violates the property itself — a larger batch, oracle only"""
    cases = [gen_case(ctx.rng) for _ in range(ctx.n(600, 3000))]
    results, _ = run_cases(ctx, cases)
    for (case, kind), obs in zip(cases, results):
        if obs is not None:
            oracle(ctx, case, obs, kind)


def replay(ctx, case):
    rp.quiet()
    c = case["case"]
    if c[0] == "bind":
        from pynetdicom import AE, evt
        from pynetdicom.association import Association
        from pynetdicom.events import get_default_handler

        hs = {k: (lambda k: (lambda event: (True, None)))(k) for k in range(1, 6)}
        ident = {id(f): k for k, f in hs.items()}
        ident[id(get_default_handler(evt.EVT_USER_ID))] = 0
        obj = Association(AE(), "requestor")
        ev = evt.EVT_USER_ID if c[2] == "I" else evt.EVT_ESTABLISHED
        for o, h in c[3]:
            (obj.bind if o == "bind" else obj.unbind)(ev, hs[h])
        got = obj.get_handlers(ev)
        real = ident.get(id(got[0]), -1) if c[2] == "I" else [ident.get(id(g[0]), -1) for g in got]
        m = ctx.lean([["bind.run", c[2], c[3]]])[0]
        print("calls:", c[3], " bound:", real, " model:", m)
        return 0 if real == (m if c[2] == "I" else list(m)) else 1
    c = [c[0], [_b(x) for x in c[1]], c[2], _b(c[3]), c[4], _b(c[5]), _b(c[6]), c[7], c[8]]
    w = Worker()
    try:
        obs = w.run(c)
    finally:
        w.stop()
    print("case :", ctx_repr(c))
    print("real :", obs)
    rep = ctx.lean([lean_req(c)])[0]
    print("model:", canon_model(rep))
    print("failed checks (property reading):", sorted(failed_checks(c)))

    class _C:
        failures = []

        def fail(self, sig, what, case):
            self.failures.append(sig)

    cc = _C()
    oracle(cc, c, obs, "")
    print("oracle:", cc.failures or "ok")
    return 1 if cc.failures else 0


def _b(x):
    if isinstance(x, str) and x.startswith("x"):
        return bytes.fromhex(x[1:])
    return x
