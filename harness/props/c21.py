"""C21 — handler results map to response status and data as documented.

Every real `ServiceClass.SCP` is driven in-process (harness/scp_driver.py) with generated handler
results: ints (known / unknown / out of range), status Datasets with and without Status and with
optional elements, other types, exceptions, datasets that are valid / empty / None / not a Dataset /
unencodable.  Each case is (1) compared with the Lean model (for which Props/C21.lean proves
agreement with Spec/ScpStatus.lean, the hand transcription of pynetdicom's documentation) and
(2) checked directly: the status of the responses against an independent Python transcription of
the documented codes, the optional status elements against PS3.7 Annex C, and every data set sent
against the data set the handler supplied (decoded and compared).
"""
import logging

from pydicom.dataset import Dataset

from harness import scp_driver as sd
from translate import scp as tr_scp
from translate import status as tr_status

GEN = [tr_status.generate, tr_scp.generate]

KNOWN = {"scp:non-status-element-copied", "relevant-patient:typeerror-answered-success"}

# ---- independent transcription of the documentation (docs/reference/status.rst, service class docs)
EXC_CODE = {"echo": 0x0000, "store": 0xC211, "find": 0xC311, "get": 0xC411, "move": 0xC511}


def family(svc):
    return svc["prim"] if svc["prim"] in EXC_CODE else "n"


def documented_status(fam, s):
    """status documented for status object `s` (behaviour grammar)"""
    if s == "bad":
        return 0x0000 if fam == "echo" else 0xC002
    if s[0] == "i":
        return s[1]
    if s[0] == "in":
        return -s[1]
    code = None
    for kw, v in s[1:]:
        if kw == "status":
            code = v
    if code is None:
        return 0x0000 if fam == "echo" else 0xC001
    return code


def status_related(prim, kw):
    """PS3.7 Annex C: which response fields are status related"""
    c_sfgm = prim in ("store", "find", "get", "move")
    n = prim.startswith("n")
    return {
        "status": True, "msgIdResp": False,
        "nRem": prim in ("get", "move"), "nFail": prim in ("get", "move"),
        "nWarn": prim in ("get", "move"), "nComp": prim in ("get", "move"),
        "errorComment": True, "offendingElement": c_sfgm, "errorID": n,
        "affClass": n, "affInst": n, "other": False,
    }[kw]


SNAP_FIELD = {"msgIdResp": "msgid", "errorComment": "ec", "offendingElement": "oe", "errorID": "eid",
              "affClass": "ac", "affInst": "ai", "nRem": "rem", "nFail": "fail", "nWarn": "warn", "nComp": "comp"}


def encodes(d):
    return isinstance(d, list) and d[5] and (d[1] is not None or d[2] or d[3] is not None or d[4])


def check_optional(name, prim, s, r, msg_id, out, counters_overwritten=False, skip=()):
    """`s`: the status Dataset that produced response snapshot `r` (first response of the request)"""
    if s == "bad" or s[0] != "d" or not any(e[0] == "status" for e in s[1:]):
        return
    for kw, v in s[1:]:
        if kw in ("status", "other") or kw in skip:
            continue
        if kw in ("nRem", "nFail", "nWarn", "nComp") and counters_overwritten:
            continue
        got = r[SNAP_FIELD[kw]]
        if status_related(prim, kw):
            if got != v:
                out.append((f"{name}:status-element-not-copied", f"{kw}={v} of the status Dataset is not in the response (found {got})"))
        else:
            base = msg_id if kw == "msgIdResp" else None
            if got == v and got != base:
                out.append(("scp:non-status-element-copied",
                            f"{name}: element {sd.KW_NAME[kw]}={v} of the handler's status Dataset, which is not a status "
                            f"related field of this response (PS3.7 Annex C), was copied into the response"))


def ds_equal(decoded, supplied, drop_aff=False):
    want = Dataset()
    for elem in supplied:
        if drop_aff and elem.keyword == "AffectedSOPInstanceUID":
            continue
        want.add(elem)
    return decoded == want


def handler_raises(h):
    return h[0] == "fr" or (h[0] == "gen" and any(it[0] == "r" for it in h[1:]))


def well_formed(svc, h, env):
    """the value the SCP was working on has the documented shape (what C20 calls a value that unpacks)"""
    from harness.props import c20

    return not c20.bad_shape(svc, h, c20.consumed_values(svc, h, env))


def interrupted(real):
    env = real["env"]
    return (not env.est) or env.peer_abort or env.peer_release


def oracle(svc, handler, real, inst=True, msg_id=7):
    out = []
    name, op, prim = svc["name"], svc["op"], svc["prim"]
    fam = family(svc)
    env = real["env"]
    rs = real["raw"]
    table = real["table"]
    if real["crashed"]:
        # an exception escaping the SCP is C20's subject; here it matters when the handler itself behaved
        # (returned / yielded values, raised nothing): its result then got no documented status at all
        if not handler_raises(handler) and well_formed(svc, handler, env) and not interrupted(real):
            out.append((f"{name}:result-got-no-response", f"the handler returned normally but {real.get('exc')!r} escaped the SCP: no status for its result"))
        return out
    # ------------------------------------------------------------- single-response services
    if op in ("scp.echo", "scp.store", "scp.n"):
        if not rs:
            return out
        r = rs[0]
        kind = handler[0]
        if kind == "fr":
            want = EXC_CODE.get(fam, 0x0110)
            if r["status"] != want:
                out.append((f"{name}:exception-status", f"handler raised: status 0x{r['status']:04X}, documented 0x{want:04X}"))
            return out
        if prim in ("echo", "store", "nDelete"):
            if kind == "fv" and handler[1] != "junk" and handler[1][0] == "s":
                s = handler[1][1]
            elif kind == "fjunk":
                s = ["i", 5]
            else:
                s = "bad"
            want = documented_status(fam, s)
            if r["status"] != want:
                out.append((f"{name}:status", f"handler returned {s}: response status {r['status']:#06x}, documented {want:#06x}"))
            check_optional(name, prim, s, r, msg_id, out)
            return out
        # N-ACTION / N-CREATE / N-EVENT-REPORT / N-GET / N-SET
        pr = sd.as_pair(handler[1]) if kind == "fv" else None
        if pr is None:
            return out
        s, d = pr
        want = documented_status("n", s)
        cat = sd.table_cat(table, want)
        d_eff, drop_aff = d, False
        if prim == "nCreate" and cat == "Success" and not inst:
            if isinstance(d, list) and d[3] is not None:
                d_eff, drop_aff = ["ds", d[1], d[2], None, d[4], d[5]], True
                if r["ai"] != d[3]:
                    out.append((f"{name}:ncreate-instance-uid", f"AffectedSOPInstanceUID of the handler's dataset ({d[3]}) not in the response ({r['ai']})"))
            else:
                want = 0x0110
                cat = None
        attach = cat in ("Success", "Warning") and sd.ds_truthy(d_eff)
        if attach and not encodes(d_eff):
            want, attach = 0x0110, False
        if r["status"] != want:
            out.append((f"{name}:status", f"handler returned ({s}, {d}): response status {r['status']:#06x}, documented {want:#06x}"))
        if attach:
            if r["ident"] != "data":
                out.append((f"{name}:dataset-missing", f"status {want:#06x} with a dataset, but the response has none"))
            elif env.supplied and not ds_equal(r["_ds"], env.supplied[0], drop_aff):
                out.append((f"{name}:dataset-changed", "the data set in the response differs from the handler's"))
        elif r["ident"] == "data":
            out.append((f"{name}:dataset-unexpected", f"response status {r['status']:#06x} carries a data set"))
        check_optional(name, prim, s, r, msg_id, out, skip=("affInst",) if drop_aff else ())
        return out
    # ------------------------------------------------------------- generator services
    if handler[0] == "fr":
        if op == "scp.rp" and handler[1]:
            if rs and rs[0]["status"] == 0x0000:
                out.append(("relevant-patient:typeerror-answered-success",
                            f"{name}: the handler raised a TypeError; response status 0x0000, documented 0xC311"))
            return out
        if rs and rs[0]["status"] != EXC_CODE[fam]:
            out.append((f"{name}:exception-status", f"handler raised: status 0x{rs[0]['status']:04X}, documented 0x{EXC_CODE[fam]:04X}"))
        return out
    if handler[0] != "gen":
        return out
    items = handler[1:]
    if op == "scp.find":
        # response i <-> i-th value the loop body ran on
        di = 0
        peer = False
        for i, it in enumerate(items[: env.pulled]):
            if i >= len(rs):
                break
            r = rs[i]
            if it[0] == "ret":
                break
            if it[-1] & 1:
                break  # the handler aborted: nothing more is sent
            if it[0] == "y":
                peer = peer or bool(it[2] & 6)
                if peer:
                    break  # `_wrap_handler` stops the iteration: the value is dropped
            if it[0] == "r":
                if r["status"] != 0xC311:
                    out.append((f"{name}:exception-status", f"generator raised: status {r['status']:#06x}, documented 0xc311"))
                elif r["ident"] == "data":
                    out.append((f"{name}:exception-response-carries-identifier",
                                f"generator raised after {i} value(s): the 0xc311 response carries an Identifier (documented: none)"))
                break
            pr = sd.as_pair(it[1])
            if pr is None:
                break
            s, d = pr
            want = documented_status("find", s)
            is_ds = isinstance(d, list) and it[1][0] == "p"
            if sd.table_cat(table, want) == "Pending":
                if encodes(d) and it[1][0] == "p":
                    if r["ident"] != "data":
                        out.append((f"{name}:dataset-missing", f"Pending response #{i + 1} has no identifier"))
                    elif not ds_equal(r["_ds"], env.supplied[di]):
                        out.append((f"{name}:dataset-changed", f"identifier of Pending response #{i + 1} differs from the handler's dataset"))
                else:
                    want = 0xC312
            if is_ds:
                di += 1
            if r["status"] != want:
                out.append((f"{name}:status", f"value #{i + 1} ({s}): response status {r['status']:#06x}, documented {want:#06x}"))
                break
            if i == 0:
                check_optional(name, "find", s, r, msg_id, out)
            if sd.table_cat(table, want) not in ("Pending", "Warning"):
                break
        return out
    if op == "scp.rp":
        if not items:
            return out
        it = items[0]
        if it[0] == "r":
            if it[1]:
                if rs and rs[0]["status"] == 0x0000:
                    out.append(("relevant-patient:typeerror-answered-success",
                                f"{name}: the handler raised a TypeError; response status 0x0000, documented 0xC311"))
            elif rs and rs[0]["status"] != 0xC311:
                out.append((f"{name}:exception-status", f"generator raised: status {rs[0]['status']:#06x}, documented 0xc311"))
            return out
        if it[0] != "y" or it[1] == "junk" or it[1][0] != "p" or not rs:
            return out
        s, d = it[1][1], it[1][2]
        want = documented_status("find", s)
        if sd.table_cat(table, want) == "Pending":
            if encodes(d):
                if rs[0]["ident"] != "data" or not ds_equal(rs[0]["_ds"], env.supplied[0]):
                    out.append((f"{name}:dataset-changed", "identifier of the Pending response differs from the handler's dataset"))
            else:
                want = 0xC312
        if rs[0]["status"] != want:
            out.append((f"{name}:status", f"first result ({s}): response status {rs[0]['status']:#06x}, documented {want:#06x}"))
        check_optional(name, "find", s, rs[0], msg_id, out)
        return out
    # C-GET / C-MOVE: what precedes the loop, and the first result
    k = 1 if op == "scp.move" else 0
    if not rs:
        return out
    first = rs[0]["status"]

    def expect(code, why):
        if first != code:
            out.append((f"{name}:preloop-status", f"{why}: status {first:#06x}, documented {code:#06x}"))

    if op == "scp.move":
        if not items or items[0][0] != "y":
            expect(0xC514, "no destination yielded")
            return out
        v = items[0][1]
        if v == "junk" or (v[0] == "s" and (v[1] == "bad" or v[1][0] != "d")):
            expect(0xC515, "destination is not an (address, port) pair")
            return out
        if v == ["dest", "unk"] or (v[0] == "p" and v[2] is None):
            expect(0xA801, "destination contains None")
            return out
    if len(items) <= k or items[k][0] != "y":
        if op == "scp.get":
            expect(0xC413, "no number of sub-operations yielded")
        return out  # C-MOVE: the documentation is ambiguous (0xC513 / 0xC514)
    cv = items[k][1]
    if cv == "junk" or cv[0] != "s" or cv[1] == "bad" or cv[1][0] not in ("i", "in"):
        expect(0xC413 if op == "scp.get" else 0xC513, "number of sub-operations is not an int")
        return out
    n = cv[1][1] if cv[1][0] == "i" else -cv[1][1]
    if n > 65535:
        expect(0xC416 if op == "scp.get" else 0xC516, "more than 65535 sub-operations")
        return out
    if n < 1:
        return out
    if op == "scp.move":
        v = items[0][1]
        if v in (["dest", "bad"],) or v[0] in ("p", "s"):
            expect(0xC515, "destination is not a valid (address, port) pair")
            return out
        if v == ["dest", "ref"]:
            expect(0xA801, "association with the destination failed")
            return out
    # first result of the loop
    if len(items) > k + 1 and env.pulled > k + 1 and not (env.peer_abort or env.peer_release):
        it = items[k + 1]
        if it[0] == "r":
            expect(EXC_CODE[fam], "generator raised")
        elif it[0] == "y":
            pr = sd.as_pair(it[1])
            if pr is not None:
                s, d = pr
                want = documented_status(fam, s)
                cat = sd.table_cat(table, want)
                if cat != "Pending":
                    expect(want, f"first result ({s})")
                    check_optional(name, prim, s, rs[0], msg_id, out, counters_overwritten=(cat is not None))
                elif sd.ds_truthy(d):
                    check_optional(name, prim, s, rs[0], msg_id, out, counters_overwritten=True)
    return out


# --------------------------------------------------------------------------
def gen_case(g, svc):
    op = svc["op"]
    if op in ("scp.find", "scp.rp"):
        return g.find_handler()
    if op in ("scp.get", "scp.move"):
        return g.retrieve_handler(op == "scp.move")
    return g.fn_handler(svc["prim"])


def exhaustive_single(S):
    """every status shape x every dataset shape for each single-response service"""
    statuses = [["i", 0], ["i", 0x0107], ["i", 0xA700], ["i", 0x0110], ["i", 0x0002], ["i", 70000], ["in", 1],
                ["d", ["status", 0]], ["d", ["errorComment", 4], ["status", 0x0107]], ["d", ["errorComment", 4]],
                ["d", ["affClass", 5], ["msgIdResp", 9], ["status", 0], ["offendingElement", 3], ["errorID", 6], ["affInst", 8], ["other", 2]],
                ["d"], "bad"]
    dss = [None, ["ds", 1, False, None, True, True], ["ds", None, False, None, False, True], "jt", "jf",
           ["ds", 1, False, None, True, False], ["ds", None, False, 7, True, True], ["ds", None, False, 7, False, True]]
    for name, svc in S.items():
        if svc["op"] not in ("scp.echo", "scp.store", "scp.n"):
            continue
        for s in statuses:
            if svc["prim"] in ("echo", "store", "nDelete"):
                yield name, ["fv", ["s", s], 0], "exh", True
            else:
                for d in dss:
                    for inst in ((True, False) if svc["prim"] == "nCreate" else (True,)):
                        yield name, ["fv", ["p", s, d, "su"], 0], "exh", inst
        yield name, ["fr", False, 0], "exh", True
        yield name, ["fr", True, 0], "exh", True
        yield name, ["fnone", 0], "exh", True
        yield name, ["fjunk", 0], "exh", True


def _run_batch(ctx, S, cases):
    reals, reqs = [], []
    for name, h, kind, inst in cases:
        real = sd.run_scp(S[name], h, req_has_inst=inst)
        reals.append(real)
        reqs.append(sd.model_request(S[name], real["table"], h, req_has_inst=inst))
    replies = ctx.lean(reqs)
    for (name, h, kind, inst), real, rep in zip(cases, reals, replies):
        case = [name, h, inst]
        ctx.case(case, nontrivial=bool(real["rsps"]), kind=S[name]["op"][4:] + ":" + kind)
        if isinstance(rep, str):
            ctx.diff(case, real["rsps"], rep, what="Lean driver rejected the case")
            continue
        m = sd.canon_model(rep)
        impl = {"rsps": real["rsps"], "subops": real["subops"], "crashed": real["crashed"]}
        model = {"rsps": m["rsps"], "subops": m["subops"], "crashed": m["crashed"]}
        if impl != model:
            ctx.diff(case, impl, model)
        for sig, msg in oracle(S[name], h, real, inst):
            ctx.fail(sig, msg + f"  [handler behaviour: {h}]", case)


WITNESSES = [
    ("store", ["fv", ["s", ["d", ["affClass", 5], ["msgIdResp", 9], ["status", 0]]], 0], "witness", True),
    ("rpfind", ["gen", ["r", True, 0]], "witness", True),
]


def run(ctx):
    logging.disable(logging.CRITICAL)
    ctx.rule = (
        "handler results per service: status ints (table codes of every category, unknown, out of range), status "
        "Datasets with/without Status and with optional elements (ErrorComment, OffendingElement, ErrorID, counters, "
        "AffectedSOPClassUID/InstanceUID, MessageIDBeingRespondedTo, a non-DIMSE element), wrong types, exceptions; "
        "datasets valid / empty / None / not a Dataset / unencodable; N-CREATE with and without request instance UID; "
        "non-trivial = at least one response was sent"
    )
    S = sd.services()
    cases = list(WITNESSES)
    per = ctx.n(60, 5000)
    for name, svc in S.items():
        g = sd.BGen(ctx.rng, svc)
        for _ in range(per):
            h, kind = gen_case(g, svc)
            cases.append((name, h, kind, ctx.rng.random() < 0.5))
    cases.extend(exhaustive_single(S))
    for i in range(0, len(cases), 5000):
        _run_batch(ctx, S, cases[i : i + 5000])
    ctx.extra["services"] = len(S)
    ctx.note(
        "data set fidelity is checked by decoding what the SCP hands to dimse.send_msg (Implicit VR LE) and comparing "
        "with the handler's Dataset; the transport of those bytes is C15/C16's subject. A generator C-MOVE handler that "
        "ends before yielding the count is answered 0xC513; the documentation names both 0xC513 and 0xC514 for it (not judged)"
    )


def search(ctx):
    logging.disable(logging.CRITICAL)
    S = sd.services()
    cases = list(exhaustive_single(S))
    for name, svc in S.items():
        g = sd.BGen(ctx.rng, svc)
        for _ in range(1200):
            h, kind = gen_case(g, svc)
            cases.append((name, h, kind, True))
    for name, h, kind, inst in cases:
        real = sd.run_scp(S[name], h, req_has_inst=inst)
        for sig, msg in oracle(S[name], h, real, inst):
            if sig not in KNOWN:
                ctx.fail(sig, msg + f"  [handler behaviour: {h}]", [name, h, inst])
                return


def replay(ctx, case):
    logging.disable(logging.CRITICAL)
    c = case["case"]
    name, h = c[0], c[1]
    inst = c[2] if len(c) > 2 else True
    S = sd.services()
    real = sd.run_scp(S[name], h, req_has_inst=inst)
    print("service", name, "handler behaviour", h, "request has instance uid:", inst)
    for r in real["rsps"]:
        st = r[0]
        print("  response status", hex(st) if isinstance(st, int) else st, "msgid", r[1], "dataset", r[3],
              "ErrorComment/OffendingElement/ErrorID/AffectedSOPClassUID/AffectedSOPInstanceUID", r[8:13])
    bad = oracle(S[name], h, real, inst)
    for sig, msg in bad:
        print("  PROPERTY VIOLATED:", sig, "-", msg)
    return 1 if bad else 0
