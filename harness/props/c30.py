"""C30 — storage apps never write outside their storage directory.

Real side: the two real `handle_store` functions (apps/common.py for storescp,
apps/qrscp/handlers.py for qrscp) are called in-process with hostile SOP
Instance / SOP Class UID strings inside a throw-away tree

    tmp/decoy_top.txt
    tmp/outer/decoy.txt   tmp/outer/other/keep.bin   tmp/outer/instances.sqlite
    tmp/outer/storage/                     <- the configured storage directory

Three things are checked for every store:
  (oracle, on the implementation alone) nothing under tmp outside `storage`
      and the database file is created, removed or modified;
  (correspondence) the path the handler hands to `save_as`/`open` is, character
      for character, the Lean model's `qrscpTarget`/`storescpTarget`, the only
      entry that can appear in `storage` is the model's `name`, and in the
      model's residual cases (name "", ".", "..") the write fails and nothing
      is created;
  (sanity of the Lean `resolve`) it agrees with `os.path.normpath`.
"""
from __future__ import annotations

import datetime
import hashlib
import logging
import os
import shutil
import tempfile
import types
from io import BytesIO

from translate import paths as tr_paths

GEN = [tr_paths.generate]

_LOG = logging.getLogger("verif.c30")
_LOG.addHandler(logging.NullHandler())
_LOG.propagate = False
_LOG.setLevel(logging.CRITICAL + 1)


# --------------------------------------------------------------------------
# environment
# --------------------------------------------------------------------------
class Tree:
    def __init__(self):
        from pynetdicom.apps.qrscp import db as qdb

        self.tmp = os.path.realpath(tempfile.mkdtemp(prefix="verif-c30-"))
        self.outer = os.path.join(self.tmp, "outer")
        self.storage = os.path.join(self.outer, "storage")
        os.makedirs(self.storage)
        os.makedirs(os.path.join(self.outer, "other"))
        for p, data in (
            (os.path.join(self.tmp, "decoy_top.txt"), b"top"),
            (os.path.join(self.outer, "decoy.txt"), b"decoy"),
            (os.path.join(self.outer, "other", "keep.bin"), b"\x00\x01keep"),
            (os.path.join(self.outer, "1.2.3"), b"a sibling named like a UID"),
        ):
            with open(p, "wb") as f:
                f.write(data)
        self.db_file = os.path.join(self.outer, "instances.sqlite")
        self.db_url = "sqlite:///" + self.db_file
        qdb.create(self.db_url)
        self.cwd0 = os.getcwd()

    def close(self):
        os.chdir(self.cwd0)
        shutil.rmtree(self.tmp, ignore_errors=True)

    def _excluded(self, path):
        if path == self.storage or path.startswith(self.storage + os.sep):
            return True
        return any(path == self.db_file + suf for suf in ("", "-journal", "-wal", "-shm"))

    def snapshot(self):
        """(path, kind, size, mtime_ns, sha) of everything under tmp except storage and the db file."""
        out = {}
        for d, dirs, files in os.walk(self.tmp):
            dirs[:] = [x for x in dirs if not self._excluded(os.path.join(d, x))]
            for x in dirs:
                out[os.path.join(d, x)] = ("dir",)
            for x in files:
                p = os.path.join(d, x)
                if self._excluded(p):
                    continue
                st = os.lstat(p)
                try:
                    sha = hashlib.sha1(open(p, "rb").read()).hexdigest()
                except OSError:
                    sha = "?"
                out[p] = ("file", st.st_size, st.st_mtime_ns, sha)
        return out

    def storage_entries(self):
        return sorted(os.listdir(self.storage))

    def empty_storage(self):
        for x in os.listdir(self.storage):
            p = os.path.join(self.storage, x)
            if os.path.isdir(p) and not os.path.islink(p):
                shutil.rmtree(p, ignore_errors=True)
            else:
                os.unlink(p)

    def dirform(self, form):
        """-> (configured directory value, cwd to run in)"""
        if form == "abs":
            return self.storage, self.outer
        if form == "abs/":
            return self.storage + "/", self.outer
        if form == "rel":
            return "storage", self.outer
        if form == "./rel/":
            return "./storage/", self.outer
        if form == "none":
            return None, self.storage
        if form == "empty":
            return "", self.storage
        raise ValueError(form)


def cps(s):
    return [ord(c) for c in s]


def uncps(l):
    return "".join(chr(c) for c in l)


# --------------------------------------------------------------------------
# events
# --------------------------------------------------------------------------
def _ts(name):
    from pydicom import uid as U

    return {
        "implicit": U.ImplicitVRLittleEndian,
        "explicit": U.ExplicitVRLittleEndian,
        "deflated": U.DeflatedExplicitVRLittleEndian,
    }[name]


def make_event(uid, cls, ts, route):
    """uid/cls: str or None (element absent).  route 'fake': attribute bag with a Dataset built
    directly; 'wire': a real pynetdicom Event whose data set is encoded and decoded again."""
    from pydicom.dataset import Dataset, FileMetaDataset
    from pynetdicom import evt
    from pynetdicom.dimse_primitives import C_STORE
    from pynetdicom.dsutils import encode
    from pynetdicom.events import Event

    tsyn = _ts(ts)
    ds = Dataset()
    ds.PatientID = "P1"
    ds.PatientName = "Verif^C30"
    ds.StudyInstanceUID = "1.2.826.0.1.1"
    ds.SeriesInstanceUID = "1.2.826.0.1.1.1"
    if cls is not None:
        ds.add_new(0x00080016, "UI", cls)
    if uid is not None:
        ds.add_new(0x00080018, "UI", uid)
    assoc = types.SimpleNamespace(requestor=types.SimpleNamespace(address="127.0.0.1", port=11112))
    cx = types.SimpleNamespace(transfer_syntax=tsyn, context_id=1, abstract_syntax="1.2.840.10008.5.1.4.1.1.2")
    if route == "wire":
        rq = C_STORE()
        rq.MessageID = 7
        rq.AffectedSOPClassUID = "1.2.840.10008.5.1.4.1.1.2"
        rq.AffectedSOPInstanceUID = "1.2.826.0.1.3680043.8.498.1"
        rq.Priority = 2
        enc = encode(ds, tsyn.is_implicit_VR, tsyn.is_little_endian, tsyn.is_deflated)
        if enc is None:
            return None
        rq.DataSet = BytesIO(enc)
        return Event(assoc, evt.EVT_C_STORE, {"request": rq, "context": cx})
    fm = FileMetaDataset()
    fm.MediaStorageSOPClassUID = "1.2.840.10008.5.1.4.1.1.2"
    fm.MediaStorageSOPInstanceUID = "1.2.826.0.1.3680043.8.498.1"
    fm.TransferSyntaxUID = tsyn
    return types.SimpleNamespace(
        dataset=ds,
        file_meta=fm,
        context=cx,
        assoc=assoc,
        request=None,
        timestamp=datetime.datetime(2026, 1, 1),
        encoded_dataset=lambda include_meta=True: b"\x00" * 128 + b"DICM" + b"payload",
    )


def seen_values(event):
    """What the handler will read: (SOPInstanceUID, SOPClassUID) as str, or a marker."""

    def get(ds, kw):
        try:
            v = getattr(ds, kw)
        except Exception as e:  # missing element, decode error
            return ("absent", type(e).__name__)
        if isinstance(v, str):
            return ("str", str(v))
        return ("nonstr", type(v).__name__)

    try:
        ds = event.dataset[0x00030000:]
    except Exception as e:
        return ("undecodable", type(e).__name__), ("undecodable", "")
    return get(ds, "SOPInstanceUID"), get(ds, "SOPClassUID")


# --------------------------------------------------------------------------
# running one store on the real code
# --------------------------------------------------------------------------
class Recorder:
    """Records the path argument of the write calls the handlers make (then lets them proceed)."""

    def __init__(self):
        self.paths = []

    def __enter__(self):
        import builtins

        from pydicom.dataset import Dataset
        from pynetdicom.apps import common

        self._save_as = Dataset.save_as
        rec = self

        def save_as(self_ds, filename, *a, **k):
            rec.paths.append(("save_as", filename))
            return rec._save_as(self_ds, filename, *a, **k)

        def rec_open(file, mode="r", *a, **k):
            if any(m in mode for m in "wax+"):
                rec.paths.append(("open", file))
            return builtins.open(file, mode, *a, **k)

        Dataset.save_as = save_as
        common.open = rec_open
        self._common = common
        return self

    def __exit__(self, *a):
        from pydicom.dataset import Dataset

        Dataset.save_as = self._save_as
        try:
            del self._common.open
        except AttributeError:
            pass


def run_store(tree, app, form, event):
    """-> dict(status, exc, paths, created, outside_changes)"""
    from pynetdicom.apps import common
    from pynetdicom.apps.qrscp import handlers as qh

    conf, cwd = tree.dirform(form)
    tree.empty_storage()
    before = tree.snapshot()
    os.chdir(cwd)
    status, exc = None, None
    with Recorder() as rec:
        try:
            if app == "qrscp":
                r = qh.handle_store(event, conf, tree.db_url, {}, _LOG)
            else:
                args = types.SimpleNamespace(ignore=False, output_directory=conf)
                r = common.handle_store(event, args, _LOG)
            status = r if isinstance(r, int) else int(r.Status)
        except Exception as e:  # the handler let an exception escape (the service class answers 0xC211)
            exc = type(e).__name__
        finally:
            os.chdir(tree.outer)
    after = tree.snapshot()
    changes = []
    for p in sorted(set(before) | set(after)):
        if before.get(p) != after.get(p):
            what = "created" if p not in before else "removed" if p not in after else "modified"
            changes.append((what, os.path.relpath(p, tree.tmp)))
    created = tree.storage_entries()
    paths = [(k, p if isinstance(p, str) else os.fspath(p)) for k, p in rec.paths]
    return dict(status=status, exc=exc, paths=paths, created=created, outside=changes, conf=conf, cwd=cwd)


# --------------------------------------------------------------------------
# generator
# --------------------------------------------------------------------------
TOKENS = [
    "..", ".", "/", "//", "/", "../", "/..", "\x00", "a", "x", "1", "2.3", "1.2.840", "0", "9", "\u0663", "\uff11",
    "\u0967", " ", "etc", "passwd", "~", "%2e%2e", "_", "-", "*", "?", "\n", "\t", "\u00e9", "\U0001f600", ":", "C:",
    "decoy.txt", "other", "keep.bin", "storage", "instances.sqlite", "'", '"', ";", "$(x)", "\u2215", "\uff0f", "\u2024",
]


def gen_uid(rng, tree):
    """-> (kind, value)   value: str or None"""
    r = rng.random()
    if r < 0.22:
        n = rng.randint(1, 8)
        return "valid-uid", ".".join(str(rng.randint(0, 99999)) for _ in range(n + 1))
    if r < 0.34:
        return "special", rng.choice(["", ".", "..", " ", ". ", ".. ", "...", "....", "./", "../", "/", "//", "\x00", "..\x00", "_"])
    if r < 0.50:
        # aimed at files that really exist outside the storage directory
        target = rng.choice(
            [
                "../decoy.txt", "../other/keep.bin", "../1.2.3", "../../decoy_top.txt", "../instances.sqlite",
                "../other/new.dcm", "../new.dcm", "../../new_top", "a/../../x", "./../decoy.txt", "..//decoy.txt",
                "../storage/../decoy.txt", "sub/new",
                os.path.join(tree.outer, "decoy.txt"), os.path.join(tree.outer, "1.2.3"),
                os.path.join(tree.tmp, "decoy_top.txt"), os.path.join(tree.outer, "abs_new"),
                os.path.join(tree.outer, "other", "keep.bin"), "/" + "x" * rng.randint(1, 5),
            ]
        )
        if rng.random() < 0.3:
            target = target.replace("/", rng.choice(["\\", "\u2215", "\uff0f", "/./", "//"]))
        return "aimed", target
    if r < 0.56:
        n = rng.choice([63, 64, 65, 200, 254, 255, 256, 257, 300, 1024, 5000])
        c = rng.choice(["1", "9", ".", "a", "/", "\u0663", "../"])
        return "long", (c * n)[:n]
    if r < 0.60:
        return "backslash", rng.choice(["1.2\\3.4", "..\\..", "\\", "a\\/b", "..\\decoy.txt"])
    if r < 0.63:
        return "absent", None
    k = rng.randint(1, 7)
    return "tokens", "".join(rng.choice(TOKENS) for _ in range(k))


def gen_cls(rng, valid):
    r = rng.random()
    if r < 0.5:
        return rng.choice(valid)
    if r < 0.65:
        return ".".join(str(rng.randint(0, 999)) for _ in range(rng.randint(2, 9)))
    if r < 0.7:
        return None
    if r < 0.8:
        return rng.choice(["", ".", "..", "../..", "/", "/abs", "\x00", "UN", "CT", "1.2.840.10008.5.1.4.1.1.2 ", "1.2.840.10008.5.1.4.1.1.2\x00"])
    return "".join(rng.choice(TOKENS) for _ in range(rng.randint(1, 5)))


def gen_case(rng, tree, valid, app=None):
    app = app or ("qrscp" if rng.random() < 0.5 else "storescp")
    kind, uid = gen_uid(rng, tree)
    cls = gen_cls(rng, valid)
    if app == "qrscp":
        form = rng.choices(["abs", "abs/", "rel", "./rel/", "empty"], [5, 2, 2, 1, 0.3])[0]
        ts = rng.choices(["implicit", "explicit", "deflated"], [3, 1, 1])[0]
    else:
        form = rng.choices(["abs", "abs/", "rel", "./rel/", "none"], [5, 2, 2, 1, 1])[0]
        ts = rng.choices(["implicit", "explicit", "deflated"], [3, 1, 1])[0]
    route = "wire" if rng.random() < 0.35 else "fake"
    return dict(app=app, form=form, uid=None if uid is None else cps(uid), cls=None if cls is None else cps(cls), ts=ts, route=route, gen=kind)


# --------------------------------------------------------------------------
# the check
# --------------------------------------------------------------------------
NAME_MAX = 255


def evaluate(ctx, tree, cases, model_check=True):
    """Runs the cases on the real code; compares with the model; evaluates the oracle."""
    events, reqs, idx = [], [], []
    for c in cases:
        uid = None if c["uid"] is None else uncps(c["uid"])
        cls = None if c["cls"] is None else uncps(c["cls"])
        try:
            ev = make_event(uid, cls, c["ts"], c["route"])
        except Exception:
            ev = None
        if ev is None and c["route"] == "wire":  # not encodable for the wire: use the attribute bag
            c["route"] = "fake"
            ev = make_event(uid, cls, c["ts"], "fake")
        events.append(ev)
        su, sc = seen_values(ev)
        c["seen"] = [su[0], sc[0]]
        conf, _ = tree.dirform(c["form"])
        if su[0] == "str" and model_check:
            if c["app"] == "qrscp":
                reqs.append(["path.qrscp", cps(conf), cps(su[1])])
                idx.append(len(events) - 1)
            elif sc[0] == "str":
                reqs.append(["path.storescp", "none" if conf is None else cps(conf), cps(sc[1]), cps(su[1])])
                idx.append(len(events) - 1)
    model = dict(zip(idx, ctx.lean(reqs))) if reqs else {}
    for i, (c, ev) in enumerate(zip(cases, events)):
        res = run_store(tree, c["app"], c["form"], ev)
        key = {k: c[k] for k in ("app", "form", "uid", "cls", "ts", "route")}
        m = model.get(i)
        nontrivial = c["seen"][0] == "str" and c["gen"] not in ("valid-uid",)
        ctx.case(key, nontrivial=nontrivial, kind=f"{c['app']}:{c['gen']}:{c['route']}")
        # ---- the property's oracle, on the implementation alone ----
        if res["outside"]:
            shape = "absolute" if c["uid"] and c["uid"][0] == 47 else "dotdot" if c["uid"] and cps("..") == c["uid"][:2] else "other"
            ctx.fail(
                f"{c['app']}:write-outside-storage:{shape}",
                f"{c['app']}.handle_store with SOPInstanceUID={uncps(c['uid'] or [])!r} SOPClassUID={uncps(c['cls'] or [])!r} "
                f"dir={res['conf']!r}: outside the storage directory: {res['outside']}",
                key,
            )
        if not model_check:
            continue
        # ---- correspondence with the Lean model ----
        impl = dict(paths=[p for _, p in res["paths"]], created=res["created"], status=res["status"], exc=res["exc"])
        stats = ctx.extra.setdefault("outcomes", {})

        def bump(k):
            stats[k] = stats.get(k, 0) + 1

        if m is None:
            bump(f"{c['app']}:no-string-value:" + ("nothing-written" if not res["created"] else "written"))
            # the handler gets no string: the model does not apply; it must not write at all
            if res["paths"] or res["created"]:
                ctx.diff(key, impl, "no-write (no string value reaches the path construction)")
            continue
        target, name, kind = uncps(m[0]), uncps(m[1]), m[2]
        want = dict(target=target, name=name, kind=kind)
        ok = all(p == target for p in impl["paths"])  # every write goes to the model's path, verbatim
        try:
            too_long = len(os.fsencode(name)) > NAME_MAX
        except UnicodeEncodeError:
            too_long = True
        bump(f"{c['app']}:{kind}{':too-long' if too_long else ''}:status={res['status'] if res['status'] is None else hex(res['status'])}:"
             f"writes={len(impl['paths'])}:created={len(res['created'])}")
        if kind == "child" and not too_long:
            ok = ok and set(res["created"]) <= {name}
            if res["status"] == 0:
                ok = ok and res["created"] == [name] and len(impl["paths"]) >= 1
        else:
            # "", ".", ".." (qrscp only) or a name the file system refuses: the write fails, nothing appears
            ok = ok and res["created"] == [] and res["status"] not in (0, None) and len(impl["paths"]) >= 1
            if kind == "notchild":
                ok = ok and c["app"] == "qrscp" and res["status"] == 0xA700
        if not ok:
            ctx.diff(key, impl, want)


def check_resolve(ctx, rng, n):
    """Sanity of the Lean lexical resolution against os.path.normpath (not a statement about pynetdicom)."""
    toks = ["..", ".", "", "a", "b", "storage", "1.2"]
    ps = []
    for _ in range(n):
        p = "/".join(rng.choice(toks) for _ in range(rng.randint(0, 6)))
        if rng.random() < 0.5:
            p = "/" + p.lstrip("/")
        if p.startswith("//"):
            p = p.lstrip("/")
        ps.append(p)
    out = ctx.lean([["path.resolve", cps(p)] for p in ps])
    bad = 0
    for p, o in zip(ps, out):
        comps = [uncps(x) for x in o]
        np_ = os.path.normpath(p) if p else "."
        exp = [x for x in np_.split("/") if x not in ("", ".")]
        if comps != exp:
            bad += 1
            ctx.diff(["resolve", p], exp, comps, what="Lean resolve differs from os.path.normpath")
    ctx.extra["resolve_vs_normpath"] = {"checked": len(ps), "different": bad}


def fixed_cases(tree, valid):
    """Boundary inputs that are always run (both apps, both routes where encodable)."""
    uids = [
        "", ".", "..", "...", "/", "//", "/abs", "../x", "a/../../x", "../decoy.txt", "../../decoy_top.txt",
        os.path.join(tree.outer, "decoy.txt"), os.path.join(tree.tmp, "decoy_top.txt"), "1\x002", "\x00", "..\x00/x",
        "\u0663\u0664.5", "\uff11\uff12", "../\u0663", "9" * 255, "9" * 256, "9" * 300, "\u0663" * 128, "/" * 300,
        "1.2.3", "1.2\\3.4", "..\\..", " ", ".. ", "1.2.3 ", "~/x", "C:\\x", "\uff0f..\uff0fx", "..\u2215x", None,
    ]
    clss = [valid[0], "9.9.9", "../..", "/abs", "", None, "\x00"]
    out = []
    for app in ("qrscp", "storescp"):
        for u in uids:
            for route in ("fake", "wire"):
                for form in ("abs", "abs/") + (("none",) if app == "storescp" else ("empty",)):
                    out.append(dict(app=app, form=form, uid=None if u is None else cps(u), cls=cps(clss[0]), ts="implicit", route=route, gen="fixed"))
        for cl in clss[1:]:
            out.append(dict(app=app, form="abs", uid=cps("../x"), cls=None if cl is None else cps(cl), ts="implicit", route="fake", gen="fixed-cls"))
        out.append(dict(app=app, form="rel", uid=cps("../decoy.txt"), cls=cps(clss[0]), ts="explicit", route="wire", gen="fixed"))
    for u in ("../decoy.txt", "/abs", "./../x", "a/../../x"):
        for route in ("fake", "wire"):
            out.append(dict(app="qrscp", form="abs", uid=cps(u), cls=cps(clss[0]), ts="deflated", route=route, gen="fixed-deflated"))
    out.append(dict(app="storescp", form="abs", uid=cps("../decoy.txt"), cls=cps(clss[0]), ts="deflated", route="wire", gen="fixed"))
    out.append(dict(app="storescp", form="none", uid=cps("/abs"), cls=cps("/x/"), ts="deflated", route="fake", gen="fixed"))
    return out


def run(ctx):
    from pynetdicom.apps import common

    ctx.rule = (
        "one case = one real handle_store call (qrscp or storescp) with a generated SOP Instance UID / SOP Class UID / "
        "directory form / transfer syntax, via an attribute-bag event or a real Event whose data set went through "
        "encode+decode; non-trivial = the handler receives a string that is not a generated well-formed UID"
    )
    ctx.assumptions.append(
        "C30: POSIX os.path.join and lexical path resolution are modelled (no symlinks below the storage directory); "
        "the file system's refusal to open a directory for writing and NAME_MAX are observed, not modelled; "
        "what SQLite writes next to its database file is excluded from the snapshot"
    )
    valid = sorted(common.SOP_CLASS_PREFIXES)
    tree = Tree()
    try:
        cases = fixed_cases(tree, valid)
        nq, ns = ctx.n(300, 5000), ctx.n(900, 15000)
        cases += [gen_case(ctx.rng, tree, valid, "qrscp") for _ in range(nq)]
        cases += [gen_case(ctx.rng, tree, valid, "storescp") for _ in range(ns)]
        evaluate(ctx, tree, cases)
        check_resolve(ctx, ctx.rng, ctx.n(500, 5000))
    finally:
        tree.close()


def search(ctx):
    """A theorem or the correspondence no longer checks: hunt for a store that really writes outside."""
    from pynetdicom.apps import common

    valid = sorted(common.SOP_CLASS_PREFIXES)
    tree = Tree()
    try:
        cases = []
        for _ in range(ctx.n(1500, 10000)):
            c = gen_case(ctx.rng, tree, valid)
            while c["gen"] in ("valid-uid", "absent", "backslash"):
                c = gen_case(ctx.rng, tree, valid)
            cases.append(c)
        evaluate(ctx, tree, fixed_cases(tree, valid) + cases, model_check=False)
    finally:
        tree.close()


def replay(ctx, case):
    c = dict(case["case"])
    c.setdefault("gen", "replay")
    tree = Tree()
    try:
        import re

        # absolute paths aimed at the decoys name the (deleted) tree of the original run: re-aim them
        for k in ("uid", "cls"):
            if c[k] is not None:
                c[k] = cps(re.sub(r"/[^\x00]*?/verif-c30-[^/]+", lambda m: tree.tmp, uncps(c[k]), count=1))
        ev = make_event(None if c["uid"] is None else uncps(c["uid"]), None if c["cls"] is None else uncps(c["cls"]), c["ts"], c["route"])
        if ev is None:
            ev = make_event(None if c["uid"] is None else uncps(c["uid"]), None if c["cls"] is None else uncps(c["cls"]), c["ts"], "fake")
        print("handler sees:", seen_values(ev))
        res = run_store(tree, c["app"], c["form"], ev)
        print("configured dir:", repr(res["conf"]), " cwd:", res["cwd"])
        print("status:", res["status"], " exception:", res["exc"])
        print("write calls:", res["paths"])
        print("entries in storage:", res["created"])
        print("changes outside storage:", res["outside"])
        return 1 if res["outside"] else 0
    finally:
        tree.close()
