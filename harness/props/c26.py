"""C26 — a failing notification handler never changes the protocol exchange.

(1) correspondence of `events.trigger` with the Lean model on generated handler-outcome lists
    (functions, functools.partial objects and callable instances without __name__);
(2) differential end-to-end runs: each deterministic lifecycle scenario is run with quiet
    notification handlers and with handlers raising at a generated subset of invocations; the
    PDU sequences on the wire (both directions), the DIMSE statuses and both outcomes must be equal;
(3) the documented reaction to a raising intervention handler, observed on real associations
    and compared with the Lean table.
"""
import functools
import threading

from harness import e2e

NOTIF_EVENTS = [
    "EVT_ABORTED", "EVT_ACCEPTED", "EVT_ACSE_RECV", "EVT_ACSE_SENT", "EVT_CONN_CLOSE", "EVT_CONN_OPEN", "EVT_DATA_RECV",
    "EVT_DATA_SENT", "EVT_DIMSE_RECV", "EVT_DIMSE_SENT", "EVT_ESTABLISHED", "EVT_FSM_TRANSITION", "EVT_PDU_RECV",
    "EVT_PDU_SENT", "EVT_REJECTED", "EVT_RELEASED", "EVT_REQUESTED",
]


class CallableNoName:
    def __init__(self, f):
        self.f = f

    def __call__(self, event):
        return self.f(event)


def wrap(f, kind):
    if kind == "partial":
        return functools.partial(f)
    if kind == "object":
        return CallableNoName(f)
    return f


class _Unprintable(Exception):
    def __str__(self):
        raise RuntimeError("this exception cannot be printed")

    __repr__ = __str__


# what a handler may raise: with a message, without any argument, with several, with a non-string, one that cannot even
# be formatted
SCRIPTED = [
    lambda: ValueError("scripted"), lambda: ValueError(), lambda: KeyError(), lambda: RuntimeError(1, 2),
    lambda: Exception(None), lambda: _Unprintable(), lambda: IndexError(),
]


def trigger_case(ctx, rng):
    from pynetdicom import AE, evt
    from pynetdicom.association import Association

    assoc = Association(AE(), "requestor")
    notification = rng.random() < 0.7
    outcomes = [("raise" if rng.random() < 0.3 else rng.randrange(1, 100)) for _ in range(rng.choice([0, 1, 1, 2, 3, 5]))]
    kinds = [rng.choice(["function", "partial", "object"]) for _ in outcomes]
    calls = []

    def mk(i, o):
        def h(event):
            calls.append(i)
            if o == "raise":
                raise SCRIPTED[(i + len(outcomes)) % len(SCRIPTED)]()
            return o

        return h

    if notification:
        # the four events with standard logging handlers bound by default are excluded here: those handlers need
        # real event attributes (they are exercised by the end-to-end runs below)
        ev = getattr(evt, rng.choice([n for n in NOTIF_EVENTS if n not in ("EVT_DIMSE_RECV", "EVT_DIMSE_SENT", "EVT_PDU_RECV", "EVT_PDU_SENT")]))
        for i, (o, k) in enumerate(zip(outcomes, kinds)):
            assoc.bind(ev, wrap(mk(i, o), k))
    else:
        ev = evt.EVT_C_ECHO
        outcomes = (outcomes or [rng.randrange(1, 100)])[:1]
        kinds = (kinds or ["function"])[:1]
        assoc.bind(ev, wrap(mk(0, outcomes[0]), kinds[0]))
    try:
        val = evt.trigger(assoc, ev, {})
        prop = False
    except Exception:
        val, prop = None, True
    real = [len(calls), val if isinstance(val, int) else None, prop]
    case = ["trigger", "notification" if notification else "intervention", outcomes, kinds]
    return case, real


def wire(side):
    return [r[2] for r in side["hist"] if r[1] == "EVT_DATA_SENT"]


DET_SCENARIOS = [
    {"req": ["echo", "echo", "release"], "acc": "none"},
    {"req": ["echo", "abort"], "acc": "none"},
    {"req": ["release"], "acc": "none"},
    {"req": ["echo", "idle"], "acc": "handler_abort"},
    {"req": ["echo", "release"], "acc": "none", "reject": True},
]


def summary(res):
    return {
        "req_wire": wire(res["req"]),
        "acc_wire": wire(res["acc"]),
        "req_outcome": res["req"]["outcome"],
        "acc_outcome": res["acc"]["outcome"],
        "echo": res.get("echo"),
    }


def reaction_cases(ctx):
    """raising intervention handlers on real associations -> observed reaction"""
    from pydicom.dataset import Dataset
    from pynetdicom import AE, build_context, evt
    from pynetdicom.pdu_primitives import (
        AsynchronousOperationsWindowNegotiation, SOPClassCommonExtendedNegotiation, SOPClassExtendedNegotiation,
        UserIdentityNegotiation,
    )
    from pynetdicom.sop_class import CTImageStorage, PatientRootQueryRetrieveInformationModelFind, Verification

    e2e.quiet()

    # the kind of exception must not matter (a handler may raise anything), nor where in a generator handler it is raised
    EXCS = [RuntimeError, TypeError, KeyError, AttributeError, ValueError, ZeroDivisionError, LookupError]
    plan = []
    for name in ("EVT_C_ECHO", "EVT_C_STORE", "EVT_C_FIND", "EVT_USER_ID", "EVT_ASYNC_OPS", "EVT_SOP_EXTENDED", "EVT_SOP_COMMON"):
        for exc in (EXCS if not ctx.quick else [ctx.rng.choice(EXCS)]):
            plan.append((name, exc, "call"))
    for exc in (EXCS if not ctx.quick else [TypeError, ctx.rng.choice(EXCS)]):
        plan.append(("EVT_C_FIND", exc, "after-yield"))
        plan.append(("EVT_C_FIND", exc, "before-yield"))

    out = []
    for name, exc_type, where in plan:
        def boom(event, exc_type=exc_type):
            raise exc_type("scripted intervention failure")

        def boom_gen(event, exc_type=exc_type, where=where):
            if where == "after-yield":
                ds = Dataset()
                ds.QueryRetrieveLevel, ds.PatientName = "PATIENT", "X"
                yield 0xFF00, ds
            raise exc_type("scripted intervention failure")
            yield  # noqa

        if where != "call":
            boom = boom_gen
        ae = AE()
        ae.acse_timeout = ae.dimse_timeout = ae.network_timeout = 2
        for cx in (Verification, CTImageStorage, PatientRootQueryRetrieveInformationModelFind):
            ae.add_supported_context(cx)
        srv = ae.start_server(("127.0.0.1", 0), block=False, evt_handlers=[(getattr(evt, name), boom)])
        port = srv.socket.getsockname()[1]
        errs = []
        old = threading.excepthook
        threading.excepthook = lambda a: errs.append(a.exc_type.__name__)
        try:
            cl = AE()
            cl.acse_timeout = cl.dimse_timeout = cl.network_timeout = 2
            for cx in (Verification, CTImageStorage, PatientRootQueryRetrieveInformationModelFind):
                cl.add_requested_context(cx)
            ext = []
            if name == "EVT_USER_ID":
                u = UserIdentityNegotiation()
                u.user_identity_type, u.primary_field = 1, b"user"
                ext.append(u)
            if name == "EVT_ASYNC_OPS":
                a = AsynchronousOperationsWindowNegotiation()
                a.maximum_number_operations_invoked = a.maximum_number_operations_performed = 2
                ext.append(a)
            if name == "EVT_SOP_EXTENDED":
                s = SOPClassExtendedNegotiation()
                s.sop_class_uid, s.service_class_application_information = CTImageStorage, b"\x01"
                ext.append(s)
            if name == "EVT_SOP_COMMON":
                s = SOPClassCommonExtendedNegotiation()
                s.sop_class_uid, s.service_class_uid = CTImageStorage, "1.2.840.10008.4.2"
                ext.append(s)
            assoc = cl.associate("127.0.0.1", port, ext_neg=ext)
            observed = None
            if name == "EVT_USER_ID":
                observed = "reject" if assoc.is_rejected else "established"
            elif name in ("EVT_ASYNC_OPS", "EVT_SOP_EXTENDED", "EVT_SOP_COMMON"):
                observed = "default" if assoc.is_established else "not-established"
            elif assoc.is_established:
                if name == "EVT_C_ECHO":
                    st = assoc.send_c_echo()
                elif name == "EVT_C_STORE":
                    ds = Dataset()
                    ds.SOPClassUID, ds.SOPInstanceUID, ds.PatientName = CTImageStorage, "1.2.3", "X"
                    from pydicom.dataset import FileMetaDataset
                    from pydicom.uid import ImplicitVRLittleEndian

                    ds.file_meta = FileMetaDataset()
                    ds.file_meta.TransferSyntaxUID = ImplicitVRLittleEndian
                    st = assoc.send_c_store(ds)
                else:
                    ident = Dataset()
                    ident.QueryRetrieveLevel, ident.PatientName = "PATIENT", "*"
                    st = None
                    for st, _ in assoc.send_c_find(ident, PatientRootQueryRetrieveInformationModelFind):
                        pass
                observed = ["status", getattr(st, "Status", None)] if st else "no-response"
            else:
                observed = "not-established"
            if assoc.is_established:
                assoc.release()
            out.append((name, observed, list(errs), exc_type.__name__, where))
        finally:
            threading.excepthook = old
            srv.shutdown()
    return out


def run(ctx):
    ctx.rule = (
        "trigger(): generated handler-outcome lists x callable kinds on a real Association; e2e: deterministic lifecycle "
        "scenarios run quiet and with notification handlers (function / partial / callable object) raising at a generated "
        "subset of invocations; non-trivial = at least one handler raised"
    )
    ctx.assumptions.append("equality of the quiet and the raising run is observed per scenario; scenarios are deterministic scripts (one actor at a time)")
    # (1) trigger correspondence
    cases = [trigger_case(ctx, ctx.rng) for _ in range(ctx.n(1500, 30000))]
    reps = ctx.lean([["trigger", c[1], c[2]] for c, _ in cases])
    for (case, real), rep in zip(cases, reps):
        model = [rep[0], None if rep[1] == "none" else rep[1], rep[2] == "T" or rep[2] is True]
        ctx.case(case, nontrivial="raise" in case[2], kind="trigger:" + case[1])
        if real != model:
            ctx.diff(case, real, model)
        if case[1] == "notification" and (real[2] or real[1] is not None):
            ctx.fail("notification-handler-exception-escapes-trigger", f"trigger() let {case} through: {real}", case)
    # (2) differential e2e
    import random

    jobs, specs = [], []
    reps_n = ctx.n(3, 60)
    for sc in DET_SCENARIOS:
        for i in range(reps_n):
            # every script ends through an explicit action, none through a timeout: long timeouts, so that a slow
            # machine cannot make the quiet and the raising run differ
            base = {"acc_delay_ms": 0, "reject": False, "shake": False, "timeouts": 8.0, **sc}
            jobs.append(base)
            specs.append(None)
            for kind in ("function", "partial", "object"):
                jobs.append(dict(base))
                specs.append({"seed": ctx.rng.getrandbits(30), "p": ctx.rng.choice([0.15, 0.5, 1.0]), "kind": kind})
    results = e2e.run_many(jobs, ctx.seed, workers=12, raising_specs=specs)
    quiet = None
    for sc, spec, res in zip(jobs, specs, results):
        if res.get("hang"):
            case = ["e2e", sc, spec]
            ctx.case(case, kind="e2e:hang")
            if spec is None:
                ctx.diff(case, "quiet scenario did not terminate", "n/a", "scenario harness failed")
            else:
                ctx.fail("e2e:raising-notification-handlers-change-exchange:" + spec["kind"],
                         f"script {sc}: with raising {spec['kind']} handlers the scenario does not terminate (threads {res['threads']})", case)
            continue
        if "harness_error" in res:
            ctx.diff(["scenario", sc], res["harness_error"], "n/a", "scenario harness failed")
            continue
        if spec is None and res.get("inconclusive"):
            ctx.diff(["scenario", sc], res["inconclusive"], "established", "quiet scenario could not establish its association even alone with long timeouts")
            quiet = None
            continue
        if spec is None:
            quiet = summary(res)
            qsc = sc
            ctx.case(["e2e", sc, "quiet"], nontrivial=False, kind="e2e:quiet")
            continue
        s = summary(res)
        case = ["e2e", sc, spec]
        ctx.case(case, kind="e2e:raising:" + spec["kind"])
        if quiet is not None and s != quiet:
            diffk = [k for k in s if s[k] != quiet[k]]
            ctx.fail(
                "e2e:raising-notification-handlers-change-exchange:" + spec["kind"],
                f"script {sc}: with raising {spec['kind']} handlers {diffk} differ: quiet {quiet} raising {s} "
                f"[run info: wall {res.get('wall', 0):.2f} s, rerun alone={res.get('rerun_of') is not None}, inconclusive={res.get('inconclusive')}, "
                f"thread errors {res.get('thread_errors')}, requestor history {res['req']['hist'][:14]}]",
                case,
            )
        died = res.get("thread_errors")
        if died:
            ctx.fail("e2e:thread-died-with-raising-handlers", f"{died} (script {sc})", case)
    # (3) documented reactions of intervention events
    substore_reaction(ctx)
    obs = reaction_cases(ctx)
    exp = ctx.lean([["reaction", o[0]] for o in obs])
    for (name, observed, errs, exc_name, where), e in zip(obs, exp):
        case = ["reaction", name, exc_name, where]
        ctx.case(case, kind=f"reaction:{where}")
        if observed != e:
            ctx.fail(f"intervention-reaction:{name}", f"{name} handler raising {exc_name} ({where}): observed {observed}, documented {e}", case)
        if errs:
            ctx.fail(f"intervention-exception-escapes:{name}", f"thread died: {errs} ({exc_name}, {where})", case)


def substore_reaction(ctx):
    """the requestor-side Storage SCP (C-GET / C-MOVE sub-operations): a raising EVT_C_STORE handler gives the documented
    failure response 0xC211 - the same message, on the same presentation context, as a handler returning that status"""
    from pynetdicom import evt

    from harness import ctxlib as L

    for cid in (1, 3, 7, 255):
        got = {}
        for mode in ("returns", "raises"):
            assoc, rec = L.make_assoc()
            assoc._accepted_cx = {cid: L.make_cx(cid, L.CT, L.IMPLICIT_LE, False, True)}

            def h(event, mode=mode):
                if mode == "raises":
                    raise KeyError("scripted")
                return 0xC211

            assoc.bind(evt.EVT_C_STORE, h)
            req = L.make_request("cStore", L.CT)
            req._context_id = cid
            assoc._c_store_scp(req)
            got[mode] = [(x[0], x[2]) for x in rec.sent]
        case = ["substore-reaction", cid]
        ctx.case(case, kind="reaction:sub-operation")
        if got["raises"] != got["returns"] or got["raises"] != [(cid, 0xC211)]:
            ctx.fail("intervention-reaction:EVT_C_STORE:sub-operation",
                     f"C-STORE sub-operation on context {cid}: raising handler answered {got['raises']}, a handler returning 0xC211 {got['returns']} (context id, status)", case)


def replay(ctx, case):
    c = case["case"]
    print(c)
    return 0
