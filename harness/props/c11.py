"""C11 — requestor and acceptor end up with the same view of the negotiated contexts.

Three layers, each compared with the Lean composition `nego.assoc` (Model/Nego.lean `associate`, for
which Props/C11.lean proves the property) and each put through `nego.oracle_c11` (the property's
clauses on the two real views):
  * function level: real `negotiate_as_acceptor`/`negotiate_unrestricted` and `negotiate_as_requestor`
    with both A-ASSOCIATE primitives carried through the real PDU encoder/decoder;
  * `negotiate_as_requestor` alone against arbitrary (also foreign-looking) answers;
  * e2e: real `AE.associate` against a real `AE.start_server(('127.0.0.1', 0), block=False)`, the
    acceptor's view captured in an `EVT_ACCEPTED` handler.
"""
from harness import nego as N
from translate import roles as tr_roles

GEN = [tr_roles.generate]


def _assoc_sx(rq, rqroles, ac, u, sl):
    return ["nego.assoc", bool(u), sl, [N.sx_cx(c) for c in rq], N.sx_roles(rqroles), [N.sx_cx(c) for c in ac]]


def _case(rq, rqroles, ac, u, layer):
    return {"layer": layer, "rq": [list(c) for c in rq], "rqroles": [list(r) for r in rqroles], "ac": [list(c) for c in ac], "unrestricted": bool(u)}


def _judge(ctx, case, rq, rqroles, ac, u, real, model, mis, kind):
    nontrivial = real[0] == "ok" and any(q[2] == 0 for q in real[2]) and (bool(rqroles) or any(q[2] != 0 for q in real[2]))
    ctx.case(case, nontrivial=nontrivial, kind=kind)
    if model is not None and real != model:
        ctx.diff(case, real, model)
    if real[0] != "ok":
        ctx.fail("raises-on-wellformed-input", f"association negotiation raised {real[1]}", case)
        return
    for sig, what in N.oracle_c11(rq, rqroles, ac, u, real[1], real[2], mis):
        ctx.fail(sig, what + f"  [unrestricted={u}, layer={case['layer']}]", case)


def function_level(ctx, n, nmax, sl_obs, mis, model=True):
    cases = [N.gen_assoc_case(ctx.rng, nmax) for _ in range(n)]
    reps = ctx.lean([_assoc_sx(rq, rr, ac, u, sl_obs) for rq, rr, ac, u, _ in cases]) if model else [None] * n
    for (rq, rr, ac, u, kind), m in zip(cases, reps):
        real = N.real_assoc_pdu(rq, rr, ac, u)
        _judge(ctx, _case(rq, rr, ac, u, "pdu"), rq, rr, ac, u, real, N.canon_assoc_model(m) if model else None, mis, "pdu:" + kind)


def requestor_alone(ctx, n):
    """negotiate_as_requestor vs the model on arbitrary answers (missing / duplicate / foreign ids, any
    result code, 0..2 transfer syntaxes, role answers with None) — correspondence of the requestor model
    outside what a pynetdicom acceptor sends."""
    rng = ctx.rng
    cases = []
    for k in range(n):
        rq, _, _, _ = N.gen_case(rng, 12, malformed=(k % 6 == 5))

        def role():
            r = rng.random()
            return (None, None) if r < 0.6 else ((rng.choice([True, False]), rng.choice([True, False])) if r < 0.95 else (rng.choice(N.ROLE3), rng.choice(N.ROLE3)))

        rq = [(i, a, ts) + role() for (i, a, ts, _, _) in rq]
        wire = []
        for i, a, ts, _, _ in rq:
            if rng.random() < 0.9:
                wire.append((i, rng.choice([0, 0, 0, 1, 2, 3, 4]), rng.sample(range(len(N.TS)), rng.choice([0, 1, 1, 1, 2]))))
        if wire and rng.random() < 0.2:
            wire.append((wire[0][0], rng.choice([0, 3]), [rng.randrange(len(N.TS))]))
        if rng.random() < 0.2:
            wire.append((rng.randrange(1, 256, 2), 0, [0]))
        rng.shuffle(wire)
        acroles = [(a, rng.choice(N.ROLE3 if rng.random() < 0.15 else [True, False]), rng.choice([True, False])) for a in sorted({c[1] for c in rq}) if rng.random() < 0.5]
        cases.append((rq, wire, acroles))
    reps = ctx.lean([["nego.req", [N.sx_cx(c) for c in rq], [[i, r, ts] for i, r, ts in wire], N.sx_roles(ar)] for rq, wire, ar in cases])
    for (rq, wire, ar), m in zip(cases, reps):
        real = N.real_requestor(rq, wire, ar)
        case = {"layer": "requestor", "rq": [list(c) for c in rq], "wire": [list(w) for w in wire], "acroles": [list(r) for r in ar]}
        ctx.case(case, nontrivial=real[0] == "ok" and bool(ar), kind="requestor:" + (real[0] if real[0] == "ok" else "raises-" + real[1]))
        mm = N.canon_req_model(m)
        if real != mm:
            ctx.diff(case, real, mm)
        if real[0] == "ok" and len({c[0] for c in rq}) == len(rq):
            if sorted(q[0] for q in real[1]) != sorted(c[0] for c in rq):
                ctx.fail("once", f"requestor holds ids {sorted(q[0] for q in real[1])}", case)


def e2e(ctx, n, sl_obs, mis, model=True):
    for _ in range(n):
        rq, rr, ac, u, kind = N.gen_assoc_case(ctx.rng, 8, e2e=True)
        if not u and not ac:
            ac = [(None, rq[0][1], [0], None, None)]  # start_server refuses an AE without supported contexts
        real = N.e2e_assoc(rq, rr, ac, u)
        m = N.canon_assoc_model(ctx.lean([_assoc_sx(rq, rr, ac, u, sl_obs)])[0]) if model else None
        if real[0] != "ok":
            ctx.case(_case(rq, rr, ac, u, "e2e"), kind="e2e:" + kind)
            ctx.diff(_case(rq, rr, ac, u, "e2e"), real, m, what="e2e association did not complete")
            continue
        _judge(ctx, _case(rq, rr, ac, u, "e2e"), rq, rr, ac, u, real, m, mis, "e2e:" + kind)


def run(ctx):
    ctx.rule = (
        "generated association configurations over real UIDs: 1..12 requested contexts numbered 1,3,5,.. (up to 128 in the "
        "thorough tier), supported contexts with roles None/True/False, role items a pynetdicom requestor can send, normal and "
        "unrestricted configuration; function level through the real PDU codec, negotiate_as_requestor alone on arbitrary "
        "answers, and real AE.associate/start_server loopback associations; non-trivial = at least one accepted context and a "
        "role item or a rejected context"
    )
    sl_obs = N.observed_storage_like()
    mis = sorted(set(sl_obs) ^ set(N.STORAGE_LIKE))
    function_level(ctx, ctx.n(1500, 40000), 12, sl_obs, mis)
    if not ctx.quick:
        function_level(ctx, 300, 128, sl_obs, mis)
    requestor_alone(ctx, ctx.n(1500, 30000))
    e2e(ctx, ctx.n(16, 400), sl_obs, mis)


def search(ctx):
    sl_obs = N.observed_storage_like()
    mis = sorted(set(sl_obs) ^ set(N.STORAGE_LIKE))
    function_level(ctx, 15000, 12, sl_obs, mis, model=False)
    e2e(ctx, 40, sl_obs, mis, model=False)
    ctx.note("search: 15000 function-level + 40 e2e oracle-only cases")


def replay(ctx, case):
    c = case["case"]
    if c.get("layer") == "requestor":
        rq = [tuple(x) for x in c["rq"]]
        wire = [tuple(x) for x in c["wire"]]
        ar = [tuple(x) for x in c["acroles"]]
        real = N.real_requestor(rq, wire, ar)
        m = N.canon_req_model(ctx.lean([["nego.req", [N.sx_cx(x) for x in rq], [[i, r, ts] for i, r, ts in wire], N.sx_roles(ar)]])[0])
        print("code :", real)
        print("model:", m)
        return 0 if real == m else 1
    rq = [tuple(x) for x in c["rq"]]
    rr = [tuple(x) for x in c["rqroles"]]
    ac = [tuple(x) for x in c["ac"]]
    u = c["unrestricted"]
    sl_obs = N.observed_storage_like()
    mis = sorted(set(sl_obs) ^ set(N.STORAGE_LIKE))
    real = N.e2e_assoc(rq, rr, ac, u) if c["layer"] == "e2e" else N.real_assoc_pdu(rq, rr, ac, u)
    m = N.canon_assoc_model(ctx.lean([_assoc_sx(rq, rr, ac, u, sl_obs)])[0])
    print("abstract syntaxes:", {i: N.ABS[i] for i in sorted({x[1] for x in rq})})
    print("requested (id, abs, ts):", [x[:3] for x in rq], " role items (abs, scu, scp):", rr)
    print("supported (abs, ts, scu_role, scp_role):", [x[1:] for x in ac], " unrestricted =", u)
    if real[0] == "ok":
        print("acceptor  holds (id, abs, result, ts, as_scu, as_scp):", real[1])
        print("requestor holds (id, abs, result, [ts], as_scu, as_scp):", real[2])
    else:
        print("code:", real)
    print("model:", m)
    bad = N.oracle_c11(rq, rr, ac, u, real[1], real[2], mis) if real[0] == "ok" else [("raises", str(real))]
    for sig, what in bad:
        print("property clause violated:", sig, "-", what)
    return 1 if bad or real != m else 0
