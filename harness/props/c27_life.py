"""C27, lifecycle part: the association-level notifications against `Model/Life.lean`.

* `projection` / trace inclusion: the REQUESTED / ACCEPTED / ESTABLISHED / RELEASED / ABORTED / REJECTED part of every
  recorded history must be a history the model can emit (`life.accepts`, role of the side, re-check facts regenerated
  from the source).
* directed scenarios: a handler bound to REQUESTED / ACCEPTED / ESTABLISHED on either side calls `abort()`; the recorded
  history of that side must equal what the model emits on the corresponding schedule, and be well formed.
* the window: another thread calls `abort()` between the re-check of `is_aborted` and the ESTABLISHED notification
  (forced with a line tracer on the negotiating thread); `C27_life_window_neg` says the order then breaks.
"""
from harness import poolinit as _e2e_exit
import threading
import time

from harness import e2e

LIFE = {
    "EVT_REQUESTED": "requested", "EVT_ACCEPTED": "accepted", "EVT_ESTABLISHED": "established",
    "EVT_RELEASED": "released", "EVT_ABORTED": "aborted", "EVT_REJECTED": "rejected",
}
POINTS = ["EVT_REQUESTED", "EVT_ACCEPTED", "EVT_ESTABLISHED"]
ABORT = ["uAbort", ["u", "tick"], ["u", "tick"], ["u", "tick"]]
A = ["a", "tick"]
# the model schedule of "a handler on <point> calls abort()", per role
SCHEDULES = {
    ("acc", "EVT_REQUESTED"): [A] + ABORT + [A, A],
    ("acc", "EVT_ACCEPTED"): [A, A, ["a", "accept"]] + ABORT + [A, A, A],
    ("acc", "EVT_ESTABLISHED"): [A, A, ["a", "accept"], A, A, A] + ABORT + [A, A],
    ("req", "EVT_REQUESTED"): [A] + ABORT + [A, ["a", "timeout"], A],
    ("req", "EVT_ACCEPTED"): [A, A, ["a", "accept"]] + ABORT + [A, A, A],
    ("req", "EVT_ESTABLISHED"): [A, A, ["a", "accept"], A, A, A] + ABORT + [A, A],
}


def projection(hist):
    return [LIFE[r[1]] for r in hist if r[1] in LIFE]


def guards():
    from translate import life

    f = life.extract()
    return {"acc": bool(f["acceptorGuard"]), "req": bool(f["requestorGuard"])}


def _pair(handlers_acc, handlers_req, timeouts=2.0, tracer=None):
    """one association between two real AEs; returns (assoc, res) with both recorded histories"""
    from pynetdicom import AE, evt
    from pynetdicom.sop_class import Verification

    e2e.quiet()
    before = set(e2e.pynet_threads())
    rec_req, rec_acc = e2e.Recorder(), e2e.Recorder()
    thread_errors = []
    old_hook = threading.excepthook
    threading.excepthook = lambda a: thread_errors.append((type(a.thread).__name__, a.exc_type.__name__ + ": " + str(a.exc_value)))
    t_o = timeouts * e2e.load_factor()
    srv_ae = AE(ae_title="ACCEPTOR")
    srv_ae.add_supported_context(Verification)
    srv_ae.acse_timeout = srv_ae.dimse_timeout = srv_ae.network_timeout = t_o
    srv = srv_ae.start_server(("127.0.0.1", 0), block=False, evt_handlers=rec_acc.handlers() + handlers_acc)
    try:
        cl = AE(ae_title="REQUESTOR")
        cl.add_requested_context(Verification)
        cl.acse_timeout = cl.dimse_timeout = cl.network_timeout = t_o
        a = cl.associate("127.0.0.1", srv.socket.getsockname()[1], evt_handlers=rec_req.handlers() + handlers_req)
        # (established AND aborted - the window race - leaves a dead reactor: send_*() would spin on _is_paused for ever)
        if a.is_established and not a.is_aborted:
            try:
                a.send_c_echo()
            except RuntimeError:
                pass
            if a.is_established:
                a.release()
        e2e.wait_accepted(rec_req, a, rec_acc)
        leaks = e2e.wait_quiet(before, 3 * t_o + 2.0, (rec_req, rec_acc))
        hs = list(rec_acc.hist.items())
        return {
            "thread_errors": list(thread_errors), "leaks": leaks,
            "req": {"hist": rec_req.history(a), "flags": [a.is_established, a.is_released, a.is_aborted, a.is_rejected]},
            "acc": {"hist": hs[0][1] if hs else []},
        }
    finally:
        threading.excepthook = old_hook
        try:
            srv.shutdown()
        except Exception:
            pass


def handler_abort_scenario(args):
    """a handler bound to `point` on side `role` calls abort()"""
    role, point = args
    from pynetdicom import evt

    def h(event):
        event.assoc.abort()

    hs = [(getattr(evt, point), h)]
    res = _pair(hs if role == "acc" else [], hs if role == "req" else [])
    res["script"] = {"req": ["echo", "release"], "acc": f"life-handler-abort:{role}:{point}", "acc_delay_ms": 0,
                     "reject": False, "shake": False, "timeouts": 2.0}
    res["role"], res["point"] = role, point
    return res


def _target(fn):
    """(code object, line number) of `self.assoc.is_established = True` in a negotiation function"""
    import inspect

    lines, start = inspect.getsourcelines(fn)
    for i, ln in enumerate(lines):
        if ln.strip() == "self.assoc.is_established = True":
            return fn.__code__, start + i
    return None


def window_scenario(role):
    """another thread calls abort() when the negotiating thread is about to execute `is_established = True`"""
    import sys

    from pynetdicom.acse import ACSE

    fn = ACSE._negotiate_as_acceptor if role == "acc" else ACSE._negotiate_as_requestor
    tgt = _target(fn)
    if tgt is None:
        return {"skipped": "the establishment statement was not found", "role": role}
    code, line = tgt
    fired = []

    def local(frame, event, arg):
        if event == "line" and frame.f_lineno == line and not fired:
            fired.append(True)
            assoc = frame.f_locals["self"].assoc
            t = threading.Thread(target=assoc.abort, daemon=True)
            t.start()
            t.join(10)
            fired.append(not t.is_alive())
        return local

    def tracer(frame, event, arg):
        if frame.f_code is code:
            return local
        return None

    threading.settrace(tracer)
    sys.settrace(tracer)
    try:
        res = _pair([], [])
    finally:
        sys.settrace(None)
        threading.settrace(None)
    res["script"] = {"req": ["echo", "release"], "acc": f"life-window-abort:{role}", "acc_delay_ms": 0, "reject": False,
                     "shake": False, "timeouts": 2.0}
    res["role"], res["fired"] = role, fired
    return res


def _run_pool(fn, items, procs=4):
    import multiprocessing as mp

    pool = mp.get_context("fork").Pool(processes=procs, maxtasksperchild=1, initializer=_e2e_exit.no_join_at_exit)
    try:
        return pool.map(fn, items)
    finally:
        pool.terminate()
        pool.join()


def run_directed(ctx, add, reps):
    """directed scenarios; `add(side, res)` hands their histories to the general judgement"""
    g = guards()
    items = [(r, p) for r in ("acc", "req") for p in POINTS] * reps
    results = _run_pool(handler_abort_scenario, items)
    asks = [["life.run", res["role"] == "acc", g[res["role"]], SCHEDULES[(res["role"], res["point"])]] for res in results]
    outs = ctx.lean(asks)
    for res, out in zip(results, outs):
        role, point = res["role"], res["point"]
        real = projection(res[role]["hist"])
        model = [str(x) for x in out[1]]
        case = ["life-handler-abort", role, point, real]
        ctx.case(case, nontrivial=True, kind=f"life:{role}:{point}")
        if out[0] != "T":
            ctx.diff(case, "n/a", out, "the directed schedule is not admissible in the model")
        if real != model:
            # the scenario is deterministic: a difference that is a defect shows again when it is run once more, alone
            again = _run_pool(handler_abort_scenario, [(role, point)], procs=1)[0]
            real2 = projection(again[role]["hist"])
            if real2 != model:
                ctx.diff(case, real2, model, f"{role}: a handler aborting on {point}: recorded lifecycle notifications differ from the model's")
            else:
                ctx.note(f"life-handler-abort {role}/{point}: {real} on the first run, the model's {model} when run alone")
        if role == "req" and res["req"]["flags"][0] and res["req"]["flags"][2]:
            ctx.fail("life:established-and-aborted", "requestor: is_established and is_aborted both true after a handler-made abort", case)
        for side in ("req", "acc"):
            if res[side]["hist"]:
                add(side, res)
    # the window
    for res in _run_pool(window_scenario, ["acc", "req"] * reps, procs=2):
        role = res["role"]
        if "skipped" in res:
            ctx.note(f"window scenario skipped ({role}): {res['skipped']}")
            continue
        real = projection(res[role]["hist"])
        case = ["life-window-abort", role, real, res.get("fired")]
        ctx.case(case, nontrivial=True, kind=f"life:window:{role}")
        if len(res.get("fired", [])) < 2 or not res["fired"][1]:
            ctx.note(f"window scenario ({role}): the abort did not complete inside the window: {res.get('fired')}")
        if "established" in real and "aborted" in real and real.index("aborted") < real.index("established"):
            ctx.fail("history:established-order:abort-from-another-thread-in-the-window",
                     f"{role}: abort() from another thread between the re-check of is_aborted and the ESTABLISHED notification: {real}", case)


def inclusion(ctx, results):
    """every recorded history's lifecycle part must be one the model can emit"""
    g = guards()
    asks, keep = [], []
    for side, res, terms in results:
        proj = projection(res[side]["hist"])
        asks.append(["life.accepts", side == "acc", g[side], proj])
        keep.append((side, res, proj))
    kinds = {}
    for (side, res, proj), rep in zip(keep, ctx.lean(asks)):
        kinds[tuple(proj)] = kinds.get(tuple(proj), 0) + 1
        if rep != "T":
            ctx.diff(["life-inclusion", side, res["script"], proj], proj, "not a history of Model/Life.lean",
                     f"{side}: the recorded lifecycle notifications are not a history the model can emit")
    ctx.extra["lifecycle_histories"] = {" ".join(k) or "(none)": v for k, v in sorted(kinds.items(), key=lambda kv: -kv[1])[:25]}
