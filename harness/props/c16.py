"""C16 — every DIMSE message pynetdicom sends is completely receivable by its peer.

Real side: `primitive_to_message` + `encode_msg` on real primitives of all 23 message kinds with the
data-set parameter absent / empty stream / 1 byte / large / file-backed, the peer's `decode_msg` on the
regrouped PDVs; plus a small loopback sample of every public `send_*` with empty `Dataset()` arguments.
Model side: `Dimse.primToMsg` / `encodeMsgFull` / `decodeMsg` through the driver.
Oracles: CommandDataSetType announces a data set <=> data-set fragments are sent; the receiver completes
with the original bytes; (e2e) the peer's handler runs and a response comes back within the DIMSE timeout.
"""
import ast
import os
import random
import shutil
import tempfile
import threading

from harness import dimse_common as dc
from harness.common import REPO
from translate import dimse as tr_dimse

GEN = [tr_dimse.generate]
PREFIX = "c16"

# where `_dataset_path` may be written: the sender (send_c_store, with DataSet left None), the receiving
# side (message_to_primitive) and the attribute declarations
EXPECTED_PATH_WRITERS = {
    ("association.py", "send_c_store"),
    ("dimse_messages.py", "message_to_primitive"),
    ("dimse_primitives.py", "<class>"),
    ("dimse_primitives.py", "__init__"),
}


def path_writers():
    found = set()
    root = os.path.join(REPO, "pynetdicom")
    for d, _dirs, files in os.walk(root):
        if os.sep + "tests" in d:
            continue
        for fn in files:
            if not fn.endswith(".py"):
                continue
            path = os.path.join(d, fn)
            try:
                tree = ast.parse(open(path, encoding="utf-8").read())
            except SyntaxError:
                continue

            def visit(node, func):
                for ch in ast.iter_child_nodes(node):
                    f = func
                    if isinstance(ch, (ast.FunctionDef, ast.AsyncFunctionDef)):
                        f = ch.name
                    elif isinstance(ch, ast.ClassDef):
                        f = "<class>"
                    targets = []
                    if isinstance(ch, ast.Assign):
                        targets = ch.targets
                    elif isinstance(ch, (ast.AnnAssign, ast.AugAssign)):
                        targets = [ch.target]
                    for t in targets:
                        for n in ast.walk(t):
                            if (isinstance(n, ast.Attribute) and n.attr == "_dataset_path") or (
                                isinstance(n, ast.Name) and n.id == "_dataset_path"
                            ):
                                found.add((os.path.relpath(path, root), func))
                    if isinstance(ch, ast.Call) and getattr(ch.func, "id", "") == "setattr":
                        if any(isinstance(a, ast.Constant) and a.value == "_dataset_path" for a in ch.args):
                            found.add((os.path.relpath(path, root), func))
                    visit(ch, f)

            visit(tree, "<module>")
    return found


def _case(rng, cls, shape, n, mx, off=0, wire=None):
    return {"op": "msg", "cls": cls, "shape": shape, "n": n, "seed": rng.randrange(1 << 30), "off": off, "past": False,
            "max": mx, "cmdlen": 0, "cid": rng.choice([1, 3, 5, 127, 255]), "gseed": rng.randrange(1 << 30),
            "wire": (rng.random() < 0.3) if wire is None else wire}


def gen_cases(ctx):
    rng = ctx.rng
    kinds = dc.kinds()
    cases = []
    maxes = [0, 7, 8, 64, 16382] if ctx.quick else [0, 7, 8, 9, 13, 64, 1000, 16382, 2**32 - 1]
    for cls, _P, _M, kw in kinds:
        for mx in maxes:
            big = 3 * 16376 + 5 if mx == 16382 else 5000
            for shape, n in (("none", 0), ("stream", 0), ("stream", 1), ("stream", big)):
                cases.append(_case(rng, cls, shape, n, mx))
    for mx in maxes:
        for n, off in ((0, 0), (0, 132), (1, 0), (1, 7), (5000, 132), (mx - 6 if mx >= 7 and mx < 10**6 else 10, 3)):
            cases.append(_case(rng, "C_STORE_RQ", "file", n, mx, off=off))
    # raw combinations of the private attributes no sender produces (model/implementation tie only)
    for cls in ("C_STORE_RQ", "C_FIND_RQ", "C_ECHO_RQ", "N_SET_RSP"):
        for n in (0, 1, 40):
            for mx in (0, 8, 64):
                cases.append(_case(rng, cls, "raw", n, mx, off=rng.choice([0, 2])))
        cases.append(_case(rng, cls, "file", 9, 16, off=1))
    with_kw = [k[0] for k in kinds if k[3]]
    allk = [k[0] for k in kinds]
    for _ in range(ctx.n(5000, 80000)):
        mx = rng.choice([0, 7, 8, 9, 13, 64, rng.randrange(7, 300), 16382, 2**32 - 1])
        shape = rng.choice(["none", "stream", "stream", "stream", "file"])
        cls = "C_STORE_RQ" if shape == "file" else rng.choice(allk if rng.random() < 0.3 else with_kw)
        n = rng.choice([0, 0, 1, 1, 2, rng.randrange(0, 40), rng.randrange(0, 2000)])
        cases.append(_case(rng, cls, shape, n, mx, off=rng.choice([0, 1, 132]) if shape == "file" else 0))
    return cases


def run_cases(ctx, cases, tmpdir, with_lean=True):
    for i in range(0, len(cases), 4000):
        _run_cases(ctx, cases[i : i + 4000], tmpdir, with_lean)


def _run_cases(ctx, cases, tmpdir, with_lean):
    reqs, pending = [], []
    for c in cases:
        b = dc.Built(c, tmpdir)
        try:
            pdatas, err = dc.real_encode(b.msg, c["cid"], c["max"], observed=c["seed"] % 3 == 0)
        finally:
            b.close()
        pdvs = dc.pdvs_of(pdatas)
        nds = sum(1 for _, k, _ in pdvs if not k & 1)
        announced = b.flag != 0x0101
        reachable = c["shape"] != "raw" and not (c["shape"] == "file" and c["cls"] != "C_STORE_RQ")
        sub = ("no-parameter" if b.kw is None and c["shape"] != "raw" else
               "absent" if c["shape"] == "none" else
               "file" + (":empty" if c["shape"] == "file" and not b.expect_ds else "") if c["shape"] == "file" else
               "raw-unreachable" if c["shape"] == "raw" else
               "stream:" + ("empty" if c["n"] == 0 else "1-byte" if c["n"] == 1 else "data"))
        ctx.case(c, nontrivial=b.kw is not None, kind=("rsp:" if c["cls"].endswith("RSP") else "rq:") + sub)
        groups = dc.regroup(pdvs, c["gseed"])
        real_dec = None
        if err is None and pdvs:
            real_dec, msg = dc.real_decode(groups, c["wire"])
        if reachable:
            sig = f"{sub}:max{'0' if c['max'] == 0 else 'N'}"
            if err is not None:
                ctx.fail(f"c16:raises:{sig}", f"encode_msg raised {err} [{c}]", c)
            elif announced != (nds > 0):
                ctx.fail(
                    f"c16:flag:{sig}",
                    f"{c['cls']}: CommandDataSetType={b.flag:#06x} but {nds} data-set fragments are sent; "
                    f"receiver outcome: {real_dec[0] if real_dec else None} [{c}]",
                    c,
                )
            elif real_dec is not None:
                dc.decode_oracles(ctx, c, b, real_dec, msg, PREFIX)
        if with_lean:
            reqs.append(dc.lean_enc_request(c, b))
            pending.append(("enc", c, [announced, pdvs, err]))
            if real_dec is not None:
                reqs.append(dc.lean_dec_request(groups))
                pending.append(("dec", c, real_dec))
    if not with_lean:
        return
    for (what, c, real), m in zip(pending, ctx.lean(reqs)):
        model = dc.canon_lean_enc(m) if what == "enc" else dc.canon_lean_dec(m)
        if what == "dec" and model[0] == "error" and real[0] == "error":
            continue
        if model != real:
            short = lambda v: v[:8] + ["…"] if isinstance(v, list) and len(v) > 8 else v  # noqa: E731
            ctx.diff(c, [short(x) for x in real], [short(x) for x in model], "primitive_to_message/encode_msg" if what == "enc" else "decode_msg")


# ---------------------------------------------------------------------------------------------
# end-to-end sample: every public send_* with empty Dataset() arguments, one association each
# ---------------------------------------------------------------------------------------------
def e2e(ctx, timeout=5.0, max_pdu=16382):
    import logging

    from pydicom.dataset import Dataset
    from pynetdicom import AE, evt
    from pynetdicom.sop_class import (
        BasicFilmSession,
        ModalityPerformedProcedureStep,
        PatientRootQueryRetrieveInformationModelFind as Find,
        PatientRootQueryRetrieveInformationModelGet as Get,
        PatientRootQueryRetrieveInformationModelMove as Move,
        Printer,
        PrintJob,
        Verification,
    )

    logging.getLogger("pynetdicom").setLevel(logging.CRITICAL)
    called = {}
    lock = threading.Lock()

    def mark(name):
        with lock:
            called.setdefault(name, threading.Event()).set()

    def h_find(event):
        mark("c_find")
        yield 0xFF00, Dataset()  # pending with an empty identifier
        yield 0x0000, None

    def h_get(event):
        mark("c_get")
        yield 0
        yield 0x0000, None

    def h_move(event):
        mark("c_move")
        yield ("127.0.0.1", 1)
        yield 0
        yield 0x0000, None

    def mk(name, ret):
        def h(event):
            mark(name)
            return ret()

        return h

    handlers = [
        (evt.EVT_C_ECHO, mk("c_echo", lambda: 0x0000)),
        (evt.EVT_C_FIND, h_find),
        (evt.EVT_C_GET, h_get),
        (evt.EVT_C_MOVE, h_move),
        (evt.EVT_N_GET, mk("n_get", lambda: (0x0000, Dataset()))),
        (evt.EVT_N_SET, mk("n_set", lambda: (0x0000, Dataset()))),
        (evt.EVT_N_CREATE, mk("n_create", lambda: (0x0000, Dataset()))),
        (evt.EVT_N_ACTION, mk("n_action", lambda: (0x0000, Dataset()))),
        (evt.EVT_N_EVENT_REPORT, mk("n_event_report", lambda: (0x0000, Dataset()))),
        (evt.EVT_N_DELETE, mk("n_delete", lambda: 0x0000)),
    ]
    ae = AE()
    ae.dimse_timeout = timeout
    ae.acse_timeout = timeout
    ae.network_timeout = timeout
    ae.maximum_pdu_size = max_pdu  # both sides: the peer's maximum each sender fragments for
    for s in (Verification, Find, Get, Move, ModalityPerformedProcedureStep, PrintJob, BasicFilmSession, Printer):
        ae.add_supported_context(s)
        ae.add_requested_context(s)

    first = lambda r: r[0] if isinstance(r, tuple) else r  # noqa: E731

    def _ident():
        ds = Dataset()
        ds.QueryRetrieveLevel = "PATIENT"
        ds.PatientID = "12345"
        return ds

    def observer(event):
        # an audit handler that looks at the outgoing data set: it reads the message's stream to the end
        ds = getattr(event.message, "data_set", None)
        if ds is not None:
            ds.seek(0)
            ds.read()
    ops = [
        ("c_echo", lambda a: a.send_c_echo()),
        ("c_find", lambda a: list(a.send_c_find(Dataset(), Find))[-1][0]),
        ("c_find_observed", lambda a: list(a.send_c_find(_ident(), Find))[-1][0]),
        ("c_get", lambda a: list(a.send_c_get(Dataset(), Get))[-1][0]),
        ("c_move", lambda a: list(a.send_c_move(Dataset(), "DEST", Move))[-1][0]),
        ("n_get", lambda a: first(a.send_n_get([0x00100010], Printer, "1.2.3"))),
        ("n_set", lambda a: first(a.send_n_set(Dataset(), ModalityPerformedProcedureStep, "1.2.3"))),
        ("n_create", lambda a: first(a.send_n_create(Dataset(), ModalityPerformedProcedureStep, "1.2.3"))),
        ("n_action", lambda a: first(a.send_n_action(Dataset(), 1, BasicFilmSession, "1.2.3"))),
        ("n_event_report", lambda a: first(a.send_n_event_report(Dataset(), 1, PrintJob, "1.2.3"))),
        ("n_delete", lambda a: first(a.send_n_delete(BasicFilmSession, "1.2.3"))),
    ]
    try:
        srv = ae.start_server(("127.0.0.1", 0), block=False, evt_handlers=handlers)
    except OSError as e:
        ctx.note(f"e2e sample skipped: cannot listen on loopback ({e})")
        return
    try:
        port = srv.server_address[1]
        for name, op in ops:
            case = {"op": "e2e", "send": name, "max_pdu": max_pdu}
            assoc = ae.associate("127.0.0.1", port, evt_handlers=[(evt.EVT_DIMSE_SENT, observer)] if name.endswith("_observed") else [])
            if not assoc.is_established:
                ctx.note(f"e2e {name}: association not established, sample skipped")
                continue
            try:
                try:
                    with lock:
                        called.pop(name.replace("_observed", ""), None)
                    status = op(assoc)
                    exc = None
                except Exception as e:  # noqa: BLE001
                    status, exc = None, f"{type(e).__name__}: {e}"
                got_status = status is not None and "Status" in status
                handler_ran = name.replace("_observed", "") in called
                alive = assoc.is_established
                ctx.case(case, nontrivial=name not in ("c_echo", "n_delete", "n_get"), kind="e2e:send_" + name)
                if not (got_status and handler_ran and alive):
                    ctx.fail(
                        f"c16:e2e:send_{name}",
                        f"send_{name} with empty Dataset(): handler invoked={handler_ran}, response status "
                        f"received={got_status}, association still established={alive}, exception={exc} "
                        f"(DIMSE timeout {timeout}s)",
                        case,
                    )
            finally:
                if assoc.is_established:
                    assoc.release()
                elif not assoc.is_aborted and not assoc.is_released:
                    assoc.abort()
    finally:
        srv.shutdown()


def run(ctx):
    ctx.rule = (
        "all 23 message kinds x data-set parameter {None, empty BytesIO, 1 byte, large} x maxima, file-backed "
        "C-STORE (empty and non-empty after the offset), random kinds/lengths/maxima, random regrouping for the "
        "receiver; 10 loopback associations sending every public send_* with empty Dataset(); non-trivial = "
        "message kind that has a data-set parameter"
    )
    ctx.assumptions.append(
        "C16: the receiver reads CommandDataSetType as the sender wrote it (command-set codec, C17); the e2e "
        "sample covers the public send_* API and the SCP response paths of one handler each, the message-level "
        "run covers all 23 kinds"
    )
    writers = path_writers()
    ctx.extra["dataset_path_writers"] = sorted(map(list, writers))
    if not writers <= EXPECTED_PATH_WRITERS:
        ctx.diff(
            ["source-fact", "_dataset_path writers"],
            sorted(map(list, writers)),
            sorted(map(list, EXPECTED_PATH_WRITERS)),
            "a new writer of primitive._dataset_path: the shapes covered by C16_flag_iff may no longer be all "
            "the shapes senders produce (see C16_flag_iff_raw)",
        )
    tmpdir = tempfile.mkdtemp(prefix="c16-")
    try:
        run_cases(ctx, gen_cases(ctx), tmpdir)
    finally:
        shutil.rmtree(tmpdir, ignore_errors=True)
    e2e(ctx)
    if not ctx.quick:
        for mp in (0, 64, 7):
            e2e(ctx, max_pdu=mp)


def search(ctx):
    """correspondence or theorem broke: evaluate the oracles alone on the full kind x shape x maximum matrix"""
    rng = random.Random(ctx.seed + 5)
    cases = []
    for cls, _P, _M, _kw in dc.kinds():
        for mx in (0, 7, 8, 9, 20, 64, 16382):
            for n in (0, 1, 2, mx - 7 if mx > 7 else 3, mx - 6 if mx > 6 else 4, 100):
                cases.append(_case(rng, cls, "stream", max(n, 0), mx, wire=False))
            cases.append(_case(rng, cls, "none", 0, mx, wire=False))
    for mx in (0, 7, 8, 64):
        for n in (0, 1, 58, 59):
            cases.append(_case(rng, "C_STORE_RQ", "file", n, mx, off=n % 2, wire=False))
    tmpdir = tempfile.mkdtemp(prefix="c16s-")
    try:
        run_cases(ctx, cases, tmpdir, with_lean=False)
    finally:
        shutil.rmtree(tmpdir, ignore_errors=True)


def replay(ctx, case):
    c = case["case"]
    print("failure:", case.get("what"))
    before = len(ctx.failures)
    if c["op"] == "e2e":
        e2e(ctx, max_pdu=c.get("max_pdu", 16382))
        bad = [f for f in ctx.failures[before:] if f["case"].get("send") == c["send"]]
        for f in bad:
            print("ORACLE FAILS:", f["what"])
        print("send_%s: %s" % (c["send"], "FAILS" if bad else "ok"))
        return 1 if bad else 0
    tmpdir = tempfile.mkdtemp(prefix="c16r-")
    try:
        b = dc.Built(c, tmpdir)
        pdatas, err = dc.real_encode(b.msg, c["cid"], c["max"])
        pdvs = dc.pdvs_of(pdatas)
        print("%s data-set parameter shape=%s n=%d: CommandDataSetType=%#06x, PDVs (ctl,len)=%s, exception=%s"
              % (c["cls"], c["shape"], c["n"], b.flag, [(k, len(p)) for _, k, p in pdvs][:40], err))
        if pdvs:
            got, _ = dc.real_decode(dc.regroup(pdvs, c["gseed"]), c.get("wire", False))
            print("receiver:", got[0], "primitives left:", got[1])
        b.close()
        run_cases(ctx, [c], tmpdir, with_lean=False)
        for f in ctx.failures[before:]:
            print("ORACLE FAILS:", f["sig"])
        return 1 if len(ctx.failures) > before else 0
    finally:
        shutil.rmtree(tmpdir, ignore_errors=True)
