"""C06 — both peers agree on how an association ended, and it always ends.

Trace validation on real two-AE runs: generated user scripts for both sides (incl. simultaneous
release / abort, abort during release, handler aborts, rejection, idle until the network timeout),
schedule shaken at the verif hook points.  Per scenario the oracle checks (1) termination within
the configured timeouts + margin with no association/provider thread left and both sockets closed,
(2) exactly one terminal outcome per side, (3) the two outcomes agree, (4) each side's terminal
notification fired exactly once.  (2)-(4) are evaluated by the Lean `Outcome.verdict` through the
driver AND by the Python restatement below (the two must agree).
"""
from harness import e2e

TERM = {"EVT_ESTABLISHED": "established", "EVT_RELEASED": "released", "EVT_ABORTED": "aborted", "EVT_REJECTED": "rejected"}


def side_term(side):
    o = side["outcome"] or {"established": False, "released": False, "aborted": False, "rejected": False}
    h = [TERM[r[1]] for r in side["hist"] if r[1] in TERM]
    return [bool(o["established"]), bool(o["released"]), bool(o["aborted"]), bool(o["rejected"]), h]


def py_verdict(a, b):
    def final(s):
        e, r, ab, j, _ = s
        if e or (r + ab + j) != 1:
            return None
        return "released" if r else ("aborted" if ab else "rejected")

    def once(s, f):
        return all(s[4].count(k) == (1 if k == f else 0) for k in ("released", "aborted", "rejected"))

    fa, fb = final(a), final(b)
    if fa is None:
        return "requestor-not-exactly-one-terminal-outcome"
    if fb is None:
        return "acceptor-not-exactly-one-terminal-outcome"
    if fa != fb:
        return "outcomes-disagree"
    if not once(a, fa):
        return "requestor-terminal-event-not-once"
    if not once(b, fb):
        return "acceptor-terminal-event-not-once"
    return "ok"


def classify(res, verdict, a, b):
    """signature of a failing scenario: the verdict plus the minimal shape that explains it"""
    sc = res["script"]
    died = [e for e in res.get("thread_errors", []) if e[0] == "DULServiceProvider"]
    if died:
        return f"c06:{verdict}:provider-thread-died"
    if verdict.endswith("terminal-event-not-once"):
        side = a if verdict.startswith("requestor") else b
        if side[2] and side[4].count("aborted") == 2 and side[4].count("released") == 0:
            return "c06:terminal-event-not-once:aborted-twice"
    if verdict == "outcomes-disagree":
        flags = {("released" if s[1] else "aborted" if s[2] else "rejected" if s[3] else "none") for s in (a, b)}
        if flags == {"released", "aborted"}:
            return "c06:outcomes-disagree:released-vs-aborted"
    return f"c06:{verdict}:{sc['req'][-1]}/{sc['acc']}"


def run(ctx):
    ctx.rule = (
        "two real AEs on loopback; generated user scripts for both sides; seed-derived delays at the hook points; "
        "one case = one complete scenario (both histories, final flags, threads, sockets); non-trivial = association established"
    )
    ctx.assumptions.append("real thread interleavings are sampled (shaken), not enumerated; timing margin = 3 x timeout + 2 s")
    scenarios = [e2e.gen_scenario(ctx.rng) for _ in range(ctx.n(120, 4000))]
    # directed scenarios: simultaneous release, abort during release, simultaneous abort
    for req_last, acc in (("release", "release"), ("release", "abort"), ("abort", "release"), ("abort", "abort")):
        for d in (0, 1, 3):
            scenarios.append({"req": ["echo", req_last], "acc": acc, "acc_delay_ms": d, "reject": False, "shake": True, "timeouts": 0.5})
    results = e2e.run_many(scenarios, ctx.seed, workers=12)
    good = [r for r in results if "harness_error" not in r and not r.get("hang")]
    for r in results:
        if r.get("hang"):
            case = ["scenario", r["script"], "hang"]
            ctx.case(case, kind="hang")
            ctx.fail("c06:does-not-terminate", f"scenario did not finish within {r['limit']:.0f} s; threads alive {r['threads']} (script {r['script']})", case)
        elif "harness_error" in r:
            ctx.diff(["scenario", r["script"]], r["harness_error"], "n/a", "scenario harness failed")
    reqs = [["outcome.verdict", side_term(r["req"]), side_term(r["acc"])] for r in good]
    reps = ctx.lean(reqs)
    for r, q, lean_v in zip(good, reqs, reps):
        sc = r["script"]
        case = ["scenario", sc, q[1], q[2]]
        est = "established" in q[1][4]
        ctx.case(case, nontrivial=est, kind=f"{sc['req'][-1]}/{sc['acc']}" + ("/rej" if sc["reject"] else ""))
        pv = py_verdict(q[1], q[2])
        if pv != lean_v:
            ctx.diff(case, pv, lean_v, "python oracle and Lean Outcome.verdict disagree")
        if lean_v != "ok":
            ctx.fail(classify(r, lean_v, q[1], q[2]), f"{lean_v}: requestor {q[1]} acceptor {q[2]} (script {sc})", case)
        if r["leaks"]:
            ctx.fail("c06:threads-left-running", f"threads still alive {r['leaks']} after {r['limit']:.1f} s (script {sc})", case)
        provider_died = [e for e in r.get("thread_errors", []) if e[0] == "DULServiceProvider"]
        for side in ("req", "acc"):
            if not r[side]["sock_closed"]:
                sig = "c06:socket-not-closed:provider-thread-died" if provider_died else f"c06:socket-not-closed:{side}"
                ctx.fail(sig, f"{side} socket still open at the end (script {sc}; provider errors {provider_died})", case)
        died = [e for e in r.get("thread_errors", []) if e[0] != "DULServiceProvider"]
        if died:
            ctx.fail("c06:thread-died:" + died[0][0], f"thread died: {died[0]} (script {sc})", case)


def replay(ctx, case):
    import random

    c = case["case"]
    sc = c[1]
    bad = 0
    for i in range(10):
        r = e2e.run_scenario(sc, random.Random(i))
        a, b = side_term(r["req"]), side_term(r["acc"])
        v = py_verdict(a, b)
        print(i, v, a, b, r["leaks"], r.get("thread_errors"))
        bad += v != "ok"
    print(f"{bad}/10 runs violate the property")
    return 1 if bad else 0
