"""C06 — both peers agree on how an association ended, and it always ends.

Trace validation on real two-AE runs: generated user scripts for both sides (incl. simultaneous
release / abort, abort during release, handler aborts, rejection, idle until the network timeout),
schedule shaken at the verif hook points.  Per scenario the oracle checks (1) termination within
the configured timeouts + margin with no association/provider thread left and both sockets closed,
(2) exactly one terminal outcome per side, (3) the two outcomes agree, (4) each side's terminal
notification fired exactly once.  (2)-(4) are evaluated by the Lean `Outcome.verdict` through the
driver AND by the Python restatement below (the two must agree).
"""
from harness import poolinit as _e2e_exit
from harness import e2e

TERM = {"EVT_ESTABLISHED": "established", "EVT_RELEASED": "released", "EVT_ABORTED": "aborted", "EVT_REJECTED": "rejected"}


def side_term(side):
    o = side["outcome"] or {"established": False, "released": False, "aborted": False, "rejected": False}
    h = [TERM[r[1]] for r in side["hist"] if r[1] in TERM]
    return [bool(o["established"]), bool(o["released"]), bool(o["aborted"]), bool(o["rejected"]), h]


def py_verdict(a, b):
    def final(s):
        e, r, ab, j, _ = s
        if e or (r + ab + j) != 1:
            return None
        return "released" if r else ("aborted" if ab else "rejected")

    def once(s, f):
        return all(s[4].count(k) == (1 if k == f else 0) for k in ("released", "aborted", "rejected"))

    fa, fb = final(a), final(b)
    if fa is None:
        return "requestor-not-exactly-one-terminal-outcome"
    if fb is None:
        return "acceptor-not-exactly-one-terminal-outcome"
    if fa != fb:
        return "outcomes-disagree"
    if not once(a, fa):
        return "requestor-terminal-event-not-once"
    if not once(b, fb):
        return "acceptor-terminal-event-not-once"
    return "ok"


def classify(res, verdict, a, b):
    """signature of a failing scenario: the verdict plus the minimal shape that explains it"""
    sc = res["script"]
    died = [e for e in res.get("thread_errors", []) if e[0] == "DULServiceProvider"]
    if died:
        return f"c06:{verdict}:provider-thread-died:{e2e.died_cause(died)}"
    if verdict.endswith("terminal-event-not-once"):
        side = a if verdict.startswith("requestor") else b
        if side[2] and side[4].count("aborted") == 2 and side[4].count("released") == 0:
            return "c06:terminal-event-not-once:aborted-twice"
    if verdict == "outcomes-disagree":
        flags = {("released" if s[1] else "aborted" if s[2] else "rejected" if s[3] else "none") for s in (a, b)}
        if flags == {"released", "aborted"}:
            return "c06:outcomes-disagree:released-vs-aborted"
    return f"c06:{verdict}:{sc['req'][-1]}/{sc['acc']}"


def run(ctx):
    ctx.rule = (
        "two real AEs on loopback; generated user scripts for both sides; seed-derived delays at the hook points; "
        "one case = one complete scenario (both histories, final flags, threads, sockets); non-trivial = association established"
    )
    ctx.assumptions.append("real thread interleavings are sampled (shaken), not enumerated; timing margin = 3 x timeout + 2 s")
    pair_lockstep(ctx)
    pause_check(ctx)
    query_break_check(ctx)
    scenarios = [e2e.gen_scenario(ctx.rng) for _ in range(ctx.n(120, 4000))]
    # directed scenarios: simultaneous release, abort during release, simultaneous abort
    for req_last, acc in (("release", "release"), ("release", "abort"), ("abort", "release"), ("abort", "abort")):
        for d in (0, 1, 3):
            scenarios.append({"req": ["echo", req_last], "acc": acc, "acc_delay_ms": d, "reject": False, "shake": True, "timeouts": 0.5})
    # accepted, but no proposed context is acceptable: the requestor aborts; both sides must still end as aborted
    for d in (0, 1):
        scenarios.append({"req": ["idle"], "acc": "none", "acc_delay_ms": d, "reject": False, "shake": bool(d), "timeouts": 1.0, "nocx": True})
    # the requestor gives up (ACSE timeout) and aborts while the acceptor is still inside its negotiation
    for f in (2.0, 3.0):
        scenarios.append({"req": ["idle"], "acc": "none", "acc_delay_ms": 0, "reject": False, "shake": False, "timeouts": 0.5,
                          "acc_slow_requested": f})
    results = e2e.run_many(scenarios, ctx.seed, workers=12)
    good = [r for r in results if "harness_error" not in r and not r.get("hang") and not r.get("inconclusive")]
    for r in results:
        if r.get("inconclusive") and not r.get("hang") and "harness_error" not in r:
            ctx.diff(["scenario", r["script"]], r["inconclusive"], "established", "association could not be established even alone with long timeouts")
    for r in results:
        if r.get("hang"):
            case = ["scenario", r["script"], "hang"]
            ctx.case(case, kind="hang")
            ctx.fail("c06:does-not-terminate", f"scenario did not finish within {r['limit']:.0f} s; threads alive {r['threads']} (script {r['script']})", case)
        elif "harness_error" in r:
            ctx.diff(["scenario", r["script"]], r["harness_error"], "n/a", "scenario harness failed")
    reqs = [["outcome.verdict", side_term(r["req"]), side_term(r["acc"])] for r in good]
    reps = ctx.lean(reqs)
    for r, q, lean_v in zip(good, reqs, reps):
        sc = r["script"]
        case = ["scenario", sc, q[1], q[2]]
        est = "established" in q[1][4]
        ctx.case(case, nontrivial=est or bool(sc.get("nocx")) or bool(sc.get("acc_slow_requested")), kind=f"{sc['req'][-1]}/{sc['acc']}" + ("/rej" if sc["reject"] else "") + ("/no-acceptable-context" if sc.get("nocx") else "") + ("/abort-during-negotiation" if sc.get("acc_slow_requested") else ""))
        pv = py_verdict(q[1], q[2])
        if pv != lean_v:
            ctx.diff(case, pv, lean_v, "python oracle and Lean Outcome.verdict disagree")
        if lean_v != "ok":
            ctx.fail(classify(r, lean_v, q[1], q[2]), f"{lean_v}: requestor {q[1]} acceptor {q[2]} (script {sc})", case)
        if r["leaks"]:
            ctx.fail("c06:threads-left-running", f"threads still alive {r['leaks']} after {r['limit']:.1f} s (script {sc})", case)
        provider_died = [e for e in r.get("thread_errors", []) if e[0] == "DULServiceProvider"]
        for side in ("req", "acc"):
            if not r[side]["sock_closed"]:
                sig = f"c06:socket-not-closed:provider-thread-died:{e2e.died_cause(provider_died)}" if provider_died else f"c06:socket-not-closed:{side}"
                ctx.fail(sig, f"{side} socket still open at the end (script {sc}; provider errors {provider_died})", case)
        died = [e for e in r.get("thread_errors", []) if e[0] != "DULServiceProvider"]
        if died:
            ctx.fail("c06:thread-died:" + died[0][0], f"thread died: {died[0]} (script {sc})", case)


# ---------------------------------------------------------------------------------------------
# product lockstep: two real reactors joined by the harness vs Model/Pair.lean
# ---------------------------------------------------------------------------------------------
LOCAL = ["accept", "reject", "pdata", "releaseRq", "releaseRp", "abort", "pabort"]
LOCAL_EVT = {"assocRq": 1, "accept": 7, "reject": 8, "pdata": 9, "releaseRq": 11, "releaseRp": 14, "abort": 15, "pabort": 15}


def drive_pair(rng, mode):
    """Interpret an adaptively generated product schedule on two real reactor threads.

    mode "sync": both local users are synchronously admissible (a primitive only at a quiescent point of their own
                 reactor and only where PS3.8 defines it, ARTIM expiry only at quiescent points), no injected send
                 failure, and no local abort while a confirmation is outstanding (Sta5/7/11) - the hypotheses of
                 C06_provider_agreement;
         "racy": anything, any time.
    Returns (effective schedule, observations, errors of both reactor threads)."""
    from harness.pairlock import RealPair
    from harness.props.c05 import defined

    rp = RealPair()
    eff, obs = [], []

    def do(st):
        rp.step(st)
        eff.append(st)
        obs.append(rp.obs())

    def side(s):
        return rp.r if s == "r" else rp.a

    def ab(s):
        do([s, "a"])
        do([s, "b"])

    def quiescent(s):
        d = side(s)
        o = d.obs()
        return d.gate.at == "iter" and not o[1] and not o[2] and d.dul.is_alive()

    def settle(s, limit=6):
        for _ in range(limit):
            if quiescent(s) or not side(s).dul.is_alive():
                return
            ab(s)

    def local(s, p):
        if s == "a" and not rp.up:
            return
        if mode == "sync":
            settle(s)
            if not quiescent(s):
                return
            sta = side(s).obs()[0]
            if not defined(LOCAL_EVT[p], sta) or (p in ("abort", "pabort") and sta in (5, 7, 11)):
                return
        do([s, ["local", p]])
        ab(s)

    try:
        depth = rng.choice([0, 2, 4, 6, 8, 8, 8, 8, 8])
        if rng.random() < 0.04:
            do(["r", "connectWillFail"])
        script = [
            lambda: do(["r", ["local", "assocRq"]]), lambda: ab("r"), lambda: ab("r"), lambda: do("deliverRA"),
            lambda: ab("a"), lambda: ab("a"), lambda: local("a", "accept" if rng.random() < 0.88 else "reject"),
            lambda: do("deliverAR"), lambda: ab("r"),
        ]
        for f in script[: depth + 1]:
            f()
        tour = rng.random()
        if depth >= 8 and tour < 0.35:
            # release by either side, possibly colliding
            first = rng.choice("ra")
            local(first, "releaseRq")
            if rng.random() < 0.4:
                local("a" if first == "r" else "r", "releaseRq")
        for _ in range(rng.choice([4, 8, 16, 24])):
            k = rng.random()
            s = rng.choice("ra")
            if k < 0.35:
                ab(s)
            elif k < 0.45:
                do([s, rng.choice("ab")])
            elif k < 0.70:
                do(rng.choice(["deliverRA", "deliverAR"]))
            elif k < 0.90:
                st = side(s).obs()[0]
                cands = [p for p in LOCAL if defined(LOCAL_EVT[p], st)] if mode == "sync" else LOCAL
                if cands:
                    local(s, rng.choice(cands))
            elif k < 0.95:
                if mode != "sync" or quiescent(s):
                    if s == "r" or rp.up:
                        do([s, "artimFire"])
            elif k < 0.97 and mode != "sync":
                do([s, "break"])
            else:
                ab(s)
        for _ in range(rng.choice([4, 10])):  # let it run out
            ab("r")
            do("deliverRA")
            ab("a")
            do("deliverAR")
        return eff, obs, [list(rp.r.errors), list(rp.a.errors)]
    finally:
        rp.close()


def _canon_pair(mo):
    from harness.props.c05 import canon_model

    b = lambda x: x == "T" or x is True

    def side(m):
        return [canon_model(m[0]), list(m[1]), m[2], b(m[3])]

    return [side(mo[0]), side(mo[1]), b(mo[2]), mo[3], mo[4], b(mo[5]), b(mo[6])]


def pair_lockstep(ctx):
    n = ctx.n(120, 2500)
    pending = []
    for i in range(n):
        mode = "sync" if i % 3 != 2 else "racy"
        try:
            eff, obs, errors = drive_pair(ctx.rng, mode)
        except Exception as exc:
            ctx.diff(["pair", mode, "?"], repr(exc), "n/a", "product lockstep harness failed")
            continue
        case = ["pair", mode, eff]
        fin = obs[-1] if obs else None
        est = any(o[0][0][0] == 6 and o[1][0][0] == 6 for o in obs)
        ctx.case(case, nontrivial=est, kind=f"pair:{mode}:" + ("established" if est else "not-established"))
        pending.append((case, obs, errors))
        if fin is None:
            continue
        r, a = fin[0], fin[1]
        ended = lambda sd: sd[0][5] and not sd[0][6]
        if mode == "sync":
            for nm, sd, err in (("requestor", r, errors[0]), ("acceptor", a, errors[1])):
                if sd[0][6]:
                    ctx.fail("c06:pair:reactor-died-under-admissible-users", f"{nm}'s reactor thread died in a sync-admissible product schedule: {err}", case)
            if ended(r) and ended(a) and not r[3] and not a[3] and r[2] != a[2]:
                ctx.fail("c06:pair:provider-outcomes-disagree", f"both reactors ended: requestor {r[2]}, acceptor {a[2]} (admissible users, no send failure, no abort while awaiting a confirmation)", case)
    if not pending:
        return
    reps = ctx.lean([["pair.run", c[2]] for c, _, _ in pending])
    oks = ctx.lean([["pair.runok", c[2]] for c, _, _ in pending])
    n_ok = 0
    for (case, obs, _), rep, ok in zip(pending, reps, oks):
        if rep == "ERR:args":
            ctx.diff(case, "real ran", "model rejected the schedule")
            continue
        if case[1] == "sync":
            if ok == "T" or ok is True:
                n_ok += 1
            else:
                ctx.diff(case, "generated as sync-admissible", "Lean Pair.runOk = false", "schedule outside the theorem's hypothesis")
        for i, (ro, mo) in enumerate(zip(obs, rep)):
            mo = _canon_pair(mo)
            for k in (0, 1):
                if ro[k][0][11] is None:
                    mo[k][0][11] = None
            if ro != mo:
                ctx.diff(case, {"step": i, "after": case[2][i], "obs": ro}, {"obs": mo}, "product lockstep state differs")
                break
    ctx.extra["pair_sync_schedules_satisfying_runOk"] = n_ok


# ---------------------------------------------------------------------------------------------
# the pause handshake (reactor checkpoint vs release()/send_*): the model's witness schedule, forced
# on the real threads
# ---------------------------------------------------------------------------------------------
def pause_scenario(mode="collision"):
    """mode "overlap": park the reactor right after `_reactor_checkpoint.wait()` returned (flag still True), let
    `release()` in a second thread pass its pause check and park it there (hook `assoc.release`), let the reactor
    go and watch whether it executes its iteration body (first statement: `dimse.get_msg(block=False)`) while the
    user thread is inside its section.  Deterministic, no peer involved.
    mode "collision": the consequence.  Force the interleaving `reactor reactor user user reactor` of Model/Pause.lean on a real requestor
    association: the reactor is parked right after `_reactor_checkpoint.wait()` returned (flag still True),
    `release()` runs in a second thread up to its first wait for the peer's answer, the peer releases too
    (collision), then the reactor is let go.  Returns what happened."""
    import threading
    import time

    from pynetdicom import AE, _verif, evt
    from pynetdicom.sop_class import Verification

    e2e.quiet()

    class GateEvent(threading.Event):
        def __init__(self):
            super().__init__()
            self.set()
            self.armed, self.reactor = False, None
            self.in_window, self.go = threading.Event(), threading.Event()

        def wait(self, timeout=None):
            r = super().wait(timeout)
            if self.armed and threading.current_thread() is self.reactor:
                self.armed = False
                self.in_window.set()
                self.go.wait(5)
            return r

    park_t2, t2_parked = threading.Event(), threading.Event()

    def cb(name, obj):
        point = "assoc.release" if mode == "overlap" else "acse.release_wait"
        if name == point and threading.current_thread().name == "verif-T2" and not t2_parked.is_set():
            t2_parked.set()
            park_t2.wait(5)

    out = {}
    acc = {}
    ae = AE()
    ae.add_supported_context(Verification)
    ae.acse_timeout = ae.dimse_timeout = ae.network_timeout = 1.5
    srv = ae.start_server(("127.0.0.1", 0), block=False, evt_handlers=[(evt.EVT_ESTABLISHED, lambda e: acc.__setitem__("a", e.assoc))])
    hist = []
    try:
        cl = AE()
        cl.add_requested_context(Verification)
        cl.acse_timeout = cl.dimse_timeout = cl.network_timeout = 1.5
        R = cl.associate(
            "127.0.0.1", srv.socket.getsockname()[1],
            evt_handlers=[(evt.EVT_RELEASED, lambda e: hist.append(("released", threading.current_thread().name))),
                          (evt.EVT_ABORTED, lambda e: hist.append(("aborted", threading.current_thread().name)))],
        )
        if not R.is_established:
            return {"error": "not established"}
        time.sleep(0.05)
        _verif.install(cb)
        g = GateEvent()
        g.reactor = R
        R._reactor_checkpoint = g
        g.armed = True
        if not g.in_window.wait(3):
            return {"error": "the reactor did not reach its checkpoint"}
        t2 = threading.Thread(target=R.release, name="verif-T2", daemon=True)
        t2.start()
        out["user_passed_pause_check"] = t2_parked.wait(1.0)   # with a stale flag it does, at once
        if mode == "overlap":
            body_calls = []
            real_get = R.dimse.get_msg

            def spy(block=False):
                if threading.current_thread() is R:
                    body_calls.append(time.monotonic())
                return real_get(block)

            R.dimse.get_msg = spy
            g.go.set()
            time.sleep(0.25)
            out["reactor_ran_body_during_user_section"] = bool(out["user_passed_pause_check"] and body_calls)
            R.dimse.get_msg = real_get
            park_t2.set()
            t2.join(6)
            time.sleep(0.2)
            out.update(is_released=R.is_released, is_aborted=R.is_aborted, events=[h[0] for h in hist], threads=[h[1] for h in hist])
            return out
        ta = threading.Thread(target=acc["a"].release, name="verif-TA", daemon=True)
        ta.start()
        t0 = time.monotonic()
        while time.monotonic() - t0 < 1.0 and R.dul.to_user_queue.qsize() == 0 and out["user_passed_pause_check"]:
            time.sleep(0.005)
        g.go.set()  # the reactor leaves wait()
        time.sleep(0.3)
        # overlap: the reactor ran its body (answered the peer's release) while the user thread is inside release()
        out["reactor_ran_body_during_user_section"] = bool(out["user_passed_pause_check"] and not park_t2.is_set() and R.is_released)
        park_t2.set()
        t2.join(6)
        ta.join(6)
        time.sleep(0.3)
        out.update(is_released=R.is_released, is_aborted=R.is_aborted, events=[h[0] for h in hist], threads=[h[1] for h in hist])
        return out
    finally:
        _verif.install(None)
        srv.shutdown()


def query_break_scenario(args):
    """The requestor runs a C-FIND / C-GET with no matches, takes the final status with a single next() and never
    touches the generator again; then the ACCEPTOR releases (or nothing happens and the requestor's network timeout
    must end the association).  Both sides must still end, with the same outcome."""
    import threading
    import time

    from pydicom.dataset import Dataset
    from pynetdicom import AE, evt
    from pynetdicom.sop_class import PatientRootQueryRetrieveInformationModelFind as F, PatientRootQueryRetrieveInformationModelGet as G

    kind, ending = args
    e2e.quiet()
    before = set(e2e.pynet_threads())
    acc, hist = {}, {"req": [], "acc": []}
    t_o = 1.0

    def h_find(event):
        return
        yield  # noqa: a generator with no matches

    def h_get(event):
        yield 0

    ae = AE()
    ae.add_supported_context(F)
    ae.add_supported_context(G)
    ae.acse_timeout = ae.dimse_timeout = 3.0
    ae.network_timeout = 30.0
    srv = ae.start_server(
        ("127.0.0.1", 0), block=False,
        evt_handlers=[(evt.EVT_C_FIND, h_find), (evt.EVT_C_GET, h_get), (evt.EVT_ESTABLISHED, lambda e: acc.__setitem__("a", e.assoc)),
                      (evt.EVT_RELEASED, lambda e: hist["acc"].append("released")), (evt.EVT_ABORTED, lambda e: hist["acc"].append("aborted"))],
    )
    out = {"kind": kind, "ending": ending}
    try:
        cl = AE()
        cl.add_requested_context(F)
        cl.add_requested_context(G)
        cl.acse_timeout = cl.dimse_timeout = 3.0
        cl.network_timeout = t_o if ending == "network-timeout" else 30.0
        a = cl.associate("127.0.0.1", srv.socket.getsockname()[1],
                         evt_handlers=[(evt.EVT_RELEASED, lambda e: hist["req"].append("released")), (evt.EVT_ABORTED, lambda e: hist["req"].append("aborted"))])
        if not a.is_established:
            return {"error": "not established"}
        ident = Dataset()
        ident.QueryRetrieveLevel, ident.PatientName = "PATIENT", "*"
        gen = a.send_c_find(ident, F) if kind == "find" else a.send_c_get(ident, G)
        st, _ = next(gen)
        out["final_status"] = getattr(st, "Status", None)
        out["gen"] = None  # the generator object stays referenced (not closed, not exhausted) until the end
        time.sleep(0.1)
        if ending == "acceptor-release":
            threading.Thread(target=acc["a"].release, daemon=True).start()
        limit = 3 * 3.0 + 2.0
        leaks = e2e.wait_quiet(before, limit)
        b = acc["a"]
        out.update(leaks=leaks, req=[a.is_released, a.is_aborted, a.is_established], acc=[b.is_released, b.is_aborted, b.is_established],
                   req_events=list(hist["req"]), acc_events=list(hist["acc"]))
        del gen
        return out
    finally:
        srv.shutdown()


def query_break_check(ctx):
    import multiprocessing as mp

    jobs = [(k, e) for k in ("find", "get") for e in ("acceptor-release", "network-timeout")]
    pool = mp.get_context("fork").Pool(processes=4, maxtasksperchild=1, initializer=_e2e_exit.no_join_at_exit)
    try:
        results = pool.map(query_break_scenario, jobs)
    finally:
        pool.terminate()
        pool.join()
    for job, r in zip(jobs, results):
        case = ["query-break", *job]
        ctx.case(case, nontrivial=True, kind=f"query-break:{job[0]}:{job[1]}")
        if "error" in r:
            ctx.diff(case, r, "n/a", "scenario harness failed")
            continue
        want = [True, False, False] if job[1] == "acceptor-release" else [False, True, False]
        if r["leaks"] or r["req"] != want or r["acc"] != want or len(r["req_events"]) != 1 or len(r["acc_events"]) != 1:
            ctx.fail(f"c06:does-not-end-after-final-status:{job[0]}:{job[1]}",
                     f"requestor took the final status of a C-{job[0].upper()} with one next() and stopped; then {job[1]}: requestor [released, aborted, established]={r['req']} "
                     f"events {r['req_events']}, acceptor {r['acc']} events {r['acc_events']}, threads left {r['leaks']}", case)


def pause_check(ctx):
    import multiprocessing as mp

    from translate import pause as tr_pause

    shape = tr_pause.extract()[0]
    pool = mp.get_context("fork").Pool(processes=2, maxtasksperchild=1, initializer=_e2e_exit.no_join_at_exit)
    try:
        results = pool.map(pause_scenario, ["overlap"] * 2 + ["collision"] * ctx.n(2, 8))
    finally:
        pool.terminate()
        pool.join()
    sched = ["reactor", "reactor", "user", "user", "reactor", "reactor"]
    m = ctx.lean([["pause.run", shape == "recheck", sched]])[0]
    model_overlap = m[4] == "T" or m[4] is True
    for i, r in enumerate(results):
        mode = "overlap" if i < 2 else "collision"
        case = ["pause-handshake", mode, sched]
        ctx.case(case, nontrivial=True, kind="pause-handshake:forced-stale-wakeup:" + mode)
        if "error" in r:
            ctx.diff(case, r, "n/a", "pause-handshake scenario failed")
            continue
        if mode == "overlap" and r["reactor_ran_body_during_user_section"] != model_overlap:
            ctx.diff(case, {"overlap": r["reactor_ran_body_during_user_section"]}, {"overlap": model_overlap},
                     "reactor body vs user section overlap differs from Model/Pause.lean")
        if mode == "overlap" and r["reactor_ran_body_during_user_section"]:
            ctx.fail("c06:pause-handshake:reactor-body-overlaps-user-section",
                     "release() passed its pause check on a stale _is_paused and the reactor then executed its iteration body "
                     "(dimse.get_msg / release / abort checks) while release() was in progress: both threads consume the peer's "
                     "messages (the collision runs of this scenario show the consequence: two terminal outcomes on one side)", case)
        if (r["is_released"] and r["is_aborted"]) or len(r["events"]) != 1:
            ctx.fail("c06:requestor-not-exactly-one-terminal-outcome:stale-pause-handshake",
                     f"release() ran while the reactor was not parked at its checkpoint: is_released={r['is_released']} "
                     f"is_aborted={r['is_aborted']} terminal events {list(zip(r['events'], r['threads']))}", case)


def replay(ctx, case):
    import random

    c = case["case"]
    if c[0] == "query-break":
        r = query_break_scenario((c[1], c[2]))
        print(r)
        want = [True, False, False] if c[2] == "acceptor-release" else [False, True, False]
        return 0 if not r.get("leaks") and r.get("req") == want and r.get("acc") == want else 1
    if c[0] == "pause-handshake":
        r = pause_scenario(c[1] if len(c) > 2 else "collision")
        print(r)
        return 1 if (r.get("is_released") and r.get("is_aborted")) or len(r.get("events", [])) != 1 else 0
    if c[0] == "pair":
        from harness.pairlock import RealPair

        rp = RealPair()
        try:
            rep = ctx.lean([["pair.run", c[2]]])[0]
            bad = 0
            for st, mo in zip(c[2], rep):
                rp.step(st)
                ro, mo = rp.obs(), _canon_pair(mo)
                for k in (0, 1):
                    if ro[k][0][11] is None:
                        mo[k][0][11] = None
                print(st, "\n   real ", ro, "\n   model", mo)
                bad += ro != mo
            fin = rp.obs()
            print("errors:", rp.r.errors, rp.a.errors, "outcomes:", fin[0][2], fin[1][2])
            return 1 if bad or rp.r.errors or rp.a.errors or fin[0][2] != fin[1][2] else 0
        finally:
            rp.close()
    sc = c[1]
    bad = 0
    for i in range(10):
        r = e2e.run_scenario(sc, random.Random(i))
        a, b = side_term(r["req"]), side_term(r["acc"])
        v = py_verdict(a, b)
        print(i, v, a, b, r["leaks"], r.get("thread_errors"))
        bad += v != "ok"
    print(f"{bad}/10 runs violate the property")
    return 1 if bad else 0
