"""C22 — C-GET / C-MOVE sub-operation counters stay consistent.

The real `QueryRetrieveServiceClass.SCP` (-> `_get_scp` / `_move_scp`) is driven in-process
through the stub association of harness/scp_driver.py with generated handler behaviours and
scripted C-STORE sub-operation outcomes.  Each case is (1) compared response by response with
the Lean model `Scp.getScp/moveScp` (for which Props/C22.lean proves the property) and
(2) checked directly against the property on the real code's responses (`oracle`).
"""
import logging

from harness import scp_driver as sd
from translate import scp as tr_scp
from translate import status as tr_status

GEN = [tr_status.generate, tr_scp.generate]


# --------------------------------------------------------------------------
# the property, evaluated on the implementation's responses
# --------------------------------------------------------------------------
_status_code = sd.status_code
_table_cat = sd.table_cat
_truthy = sd.ds_truthy


def _count(it):
    if it[0] != "y" or it[1] == "junk" or it[1][0] != "s" or it[1][1] == "bad" or it[1][1][0] != "i":
        return None
    n = it[1][1][1]
    return n if 1 <= n <= 65535 else None


def announced(name, handler):
    """N, when the SCP reads a valid count from this handler and enters its sub-operation loop
    (C-MOVE: usable destination first, association still established); else None"""
    if handler[0] != "gen":
        return None
    items = handler[1:]
    if name == "qrmove":
        if len(items) < 2 or items[0][:2] != ["y", ["dest", "ok"]] or items[0][2] & 1:
            return None
        n = _count(items[1])
        return None if n is None or items[1][2] & 1 else n
    return _count(items[0]) if items else None


_as_pair = sd.as_pair


def oracle(name, handler, real):
    """[(sig, message)] — violations of C22 by the real responses `real` (from scp_driver.run_scp)."""
    out = []
    rs = real["raw"]
    table = real["table"]
    # once the association with the move destination is lost every later sub-operation fails too
    handler = sd.normalise_lost(handler, "move" in name.lower())
    n = announced(name, handler)
    pend = [r for r in rs if r["status"] == 0xFF00]
    if pend and n is None:
        out.append((f"{name}:pending-without-count", f"Pending response although no valid count was announced: {handler}"))
        return out
    if n is None:
        return out
    env = real["env"]
    k = 1 if name == "qrmove" else 0
    items = handler[1:][k + 1:]
    pulled = max(0, env.pulled - (k + 1))  # items of the loop part the generator was asked for
    consumed = items[:pulled]
    # sub-operation candidates in the order the handler produced them
    cands = []
    for it in consumed:
        if it[0] != "y" or it[1] == "junk" or it[1][0] != "p":
            continue
        _, s, d, o = it[1]
        if _table_cat(table, _status_code(s)) == "Pending" and _truthy(d):
            cands.append((d, sd.OUTCOME_CLASS[o]))
    done = cands[: len(pend)]
    in_quantifier = all(not (isinstance(d, list)) or o != "ca" for d, o in done)
    # (1) sum, on every Pending response
    prev = None
    for i, r in enumerate(pend):
        c = (r["rem"], r["fail"], r["warn"], r["comp"])
        if any(x is None for x in c):
            out.append((f"{name}:pending-counter-missing", f"Pending response #{i + 1} lacks a counter: {c}"))
            continue
        sub_ok = all(not isinstance(d, list) or o != "ca" for d, o in done[: i + 1])
        if sub_ok and sum(c) != n:
            out.append((f"{name}:pending-sum", f"N={n}: Pending response #{i + 1} has remaining+failed+warning+completed = {c} = {sum(c)}"))
        if sum(c) > n:
            out.append((f"{name}:pending-sum-exceeds", f"N={n}: Pending response #{i + 1} counters {c} exceed N"))
        # the counters count what actually happened to the first i+1 sub-operations
        sofar = done[: i + 1]
        actual = (
            n - len(sofar),
            sum(1 for d, o in sofar if not isinstance(d, list) or o in ("fa", "ex")),
            sum(1 for d, o in sofar if isinstance(d, list) and o == "wa"),
            sum(1 for d, o in sofar if isinstance(d, list) and o == "su"),
        )
        if len(sofar) == i + 1 and c != actual:
            out.append((f"{name}:counter-values", f"N={n}: Pending response #{i + 1} reports {c} but the sub-operations so far give (remaining, failed, warning, completed) = {actual}"))
        # (2) monotone
        if prev is not None and not (c[0] <= prev[0] and c[1] >= prev[1] and c[2] >= prev[2] and c[3] >= prev[3]):
            out.append((f"{name}:monotone", f"counters went {prev} -> {c}"))
        prev = c
    if len(pend) > len(cands):
        out.append((f"{name}:more-pending-than-suboperations", f"{len(pend)} Pending responses for {len(cands)} sub-operation results"))
    # final response
    if not rs or rs[-1]["status"] == 0xFF00:
        return out
    fin = rs[-1]
    cat = _table_cat(table, fin["status"]) if isinstance(fin["status"], int) else None
    # how the final response came about (from the handler's side)
    last = consumed[-1] if consumed else None
    explicit = None  # category of a final status the handler supplied itself
    # `_wrap_handler` looks at the peer's abort/release request only after a value was yielded
    peer_stop = bool(last is not None and last[0] == "y" and (env.peer_abort or env.peer_release))
    stopped = peer_stop or len(done) >= n
    if last is not None and not stopped and len(consumed) == pulled and pulled <= len(items):
        if last[0] == "r":
            explicit = "raise"
        elif last[0] == "y" and _as_pair(last[1]) is not None:
            c = _table_cat(table, _status_code(_as_pair(last[1])[0]))
            if c != "Pending":
                explicit = c or "unknown"
    if cat is not None:
        c3 = (fin["comp"], fin["fail"], fin["warn"])
        if any(x is None for x in c3):
            out.append((f"{name}:final-counter-missing", f"final response 0x{fin['status']:04X} lacks a counter: {c3}"))
        else:
            # (3) completed + failed + warning <= N
            if sum(c3) > n:
                out.append((f"{name}:final-le", f"N={n}: final response reports completed+failed+warning = {c3}"))
            if prev is not None and not (c3[1] >= prev[1] and c3[2] >= prev[2] and c3[0] >= prev[3]):
                out.append((f"{name}:monotone-final", f"counters went {prev} -> final (comp, fail, warn) {c3}"))
            # (5) final status, when pynetdicom computes it (or the handler said Success)
            if explicit in (None, "Success") and in_quantifier:
                f, w = c3[1], c3[2]
                af = sum(1 for d, o in done if not isinstance(d, list) or o in ("fa", "ex"))
                aw = sum(1 for d, o in done if isinstance(d, list) and o == "wa")
                if (f, w) != (af, aw):
                    out.append((f"{name}:final-counter-values", f"final response reports failed={f} warning={w}; actually failed={af} warning={aw}"))
                want = 0x0000 if (f == 0 and w == 0) else (0xA702 if f == n else 0xB000)
                if fin["status"] != want:
                    out.append((f"{name}:final-status", f"N={n} failed={f} warning={w}: final status 0x{fin['status']:04X}, expected 0x{want:04X}"))
                if (fin["ident"] == "none") != (f == 0 and w == 0):
                    out.append((f"{name}:final-list-presence", f"failed={f} warning={w} but Identifier is {fin['ident']}"))
    # (4) the failed-UID list lists exactly the failed instances, in order
    if isinstance(fin["ident"], list) and fin["ident"][0] == "fl":
        want = []
        for d, o in done:
            if not isinstance(d, list):
                want.append("e")
            elif o in ("fa", "ex") and d[1] is not None:
                want.append(d[1])
        want = sd.canon_fl(want)
        if fin["ident"][1:] != want:
            out.append((f"{name}:failed-list", f"Failed SOP Instance UID List {fin['ident'][1:]} but the failed sub-operations were {want}"))
    return out


# --------------------------------------------------------------------------
# exhaustive small scope
# --------------------------------------------------------------------------
def alphabet():
    ds = lambda u: ["ds", u, False, None, True, True]
    P = ["i", 0xFF00]
    return [
        ("S", lambda u: ["y", ["p", P, ds(u), "su"], 0]),
        ("F", lambda u: ["y", ["p", P, ds(u), "fa"], 0]),
        ("W", lambda u: ["y", ["p", P, ds(u), "wa"], 0]),
        ("X", lambda u: ["y", ["p", P, ds(u), "ex"], 0]),
        ("I", lambda u: ["y", ["p", P, "jt", "su"], 0]),
        ("E", lambda u: ["y", ["p", P, None, "su"], 0]),
        ("0", lambda u: ["y", ["p", ["i", 0x0000], None, "su"], 0]),
        ("B", lambda u: ["y", ["p", ["i", 0xB000], None, "su"], 0]),
        ("R", lambda u: ["r", False, 0]),
    ]


def exhaustive_cases(max_len, max_n):
    import itertools

    alpha = alphabet()
    for name in ("qrget", "qrmove"):
        for n in range(1, max_n + 1):
            for ln in range(0, max_len + 1):
                for word in itertools.product(range(len(alpha)), repeat=ln):
                    items = [["y", ["dest", "ok"], 0]] if name == "qrmove" else []
                    items.append(["y", ["s", ["i", n]], 0])
                    for j, a in enumerate(word):
                        items.append(alpha[a][1](j + 1))
                    yield name, ["gen"] + items, "exh:" + str(ln)


# --------------------------------------------------------------------------
def shrink(S, name, h, sig):
    """drop generator items (never the destination/count header) while the oracle still reports `sig`"""
    if h[0] != "gen":
        return h
    keep = 2 if name == "qrmove" else 1
    cur = list(h)
    changed = True
    while changed:
        changed = False
        for i in range(len(cur) - 1, keep, -1):
            cand = cur[:i] + cur[i + 1:]
            try:
                if any(s_ == sig for s_, _ in oracle(name, cand, sd.run_scp(S[name], cand))):
                    cur, changed = cand, True
            except Exception:
                pass
    return cur


_SHRUNK = set()


def _run_batch(ctx, S, cases):
    reals, reqs = [], []
    for name, h, kind in cases:
        real = sd.run_scp(S[name], h)
        reals.append(real)
        reqs.append(sd.model_request(S[name], real["table"], h))
    replies = ctx.lean(reqs)
    for (name, h, kind), real, rep in zip(cases, reals, replies):
        case = [name, h]
        n = announced(name, h)
        pend = sum(1 for r in real["raw"] if r["status"] == 0xFF00)
        ctx.case(case, nontrivial=(n is not None and pend > 0), kind=kind)
        if isinstance(rep, str):
            ctx.diff(case, real["rsps"], rep, what="Lean driver rejected the case")
            continue
        m = sd.canon_model(rep)
        impl = {"rsps": real["rsps"], "subops": real["subops"], "crashed": real["crashed"]}
        model = {"rsps": m["rsps"], "subops": m["subops"], "crashed": m["crashed"]}
        if impl != model:
            ctx.diff(case, impl, model)
        for sig, msg in oracle(name, h, real):
            if sig not in _SHRUNK:
                _SHRUNK.add(sig)
                h2 = shrink(S, name, h, sig)
                msg2 = [m for s_, m in oracle(name, h2, sd.run_scp(S[name], h2)) if s_ == sig]
                if msg2:
                    ctx.fail(sig, msg2[0] + f"  [handler behaviour: {h2}]", [name, h2])
                    continue
            ctx.fail(sig, msg + f"  [handler behaviour: {h}]", case)


def run(ctx):
    logging.disable(logging.CRITICAL)
    _SHRUNK.clear()
    ctx.rule = (
        "handler behaviours for C-GET/C-MOVE: announced count (valid 1..8, 0, negative, 65535/65536, non-int), then "
        "(status, dataset) results: mostly Pending with valid datasets and scripted C-STORE outcomes "
        "(success/warning/failure/exception, rarely the out-of-quantifier Cancel status), invalid objects, "
        "empty/None datasets, fewer or more results than announced, explicit final statuses of every category, "
        "raises, association events; non-trivial = a valid count was announced and >= 1 Pending response was sent"
    )
    S = sd.services()
    cases = []
    for name in ("qrget", "qrmove"):
        g = sd.BGen(ctx.rng, S[name])
        for _ in range(ctx.n(1500, 40000)):
            h, kind = g.retrieve_handler(name == "qrmove", quantified_only=ctx.rng.random() < 0.7)
            cases.append((name, h, name + ":" + kind))
    # small-scope exhaustive: quick = all lists of length <= 2 (N <= 2); thorough = length <= 4, N <= 3
    cases.extend(exhaustive_cases(*(ctx.n((2, 2), (4, 3)))))
    for i in range(0, len(cases), 5000):
        _run_batch(ctx, S, cases[i : i + 5000])
    ctx.note(
        "C-STORE sub-operation replies with the Cancel status 0xFE00 (in STORAGE_SERVICE_CLASS_STATUS, never sent by a "
        "conformant Storage SCP) decrement remaining without incrementing a counter; they are outside the property's "
        "quantifier (success, warning, failure, exception): generated for the model comparison only, the sum oracle "
        "skips them (Lean: C22_sum_cancel_outcome_witness)"
    )
    ctx.extra["exhaustive_scope"] = "all item lists of length <= %d over a 9-symbol alphabet, N <= %d, get and move" % ctx.n((2, 2), (4, 3))


def search(ctx):
    """Deeper hunt on the implementation alone (no model): more random behaviours + the exhaustive scope."""
    logging.disable(logging.CRITICAL)
    S = sd.services()
    cases = list(exhaustive_cases(4, 3))
    for name in ("qrget", "qrmove"):
        g = sd.BGen(ctx.rng, S[name])
        for _ in range(20000):
            h, kind = g.retrieve_handler(name == "qrmove", quantified_only=True)
            cases.append((name, h, kind))
    for name, h, kind in cases:
        real = sd.run_scp(S[name], h)
        for sig, msg in oracle(name, h, real):
            ctx.fail(sig, msg + f"  [handler behaviour: {h}]", [name, h])
        if ctx.failures:
            return


def replay(ctx, case):
    logging.disable(logging.CRITICAL)
    name, h = case["case"]
    S = sd.services()
    real = sd.run_scp(S[name], h)
    print("service", name, "handler behaviour", h)
    for r in real["rsps"]:
        st = r[0]
        print("  response status", hex(st) if isinstance(st, int) else st, "msgid", r[1], "cx", r[2], "identifier", r[3],
              "remaining/failed/warning/completed", r[4:8])
    print("  sub-operations", real["subops"], "exception escaped SCP:", real["crashed"])
    bad = oracle(name, h, real)
    for sig, msg in bad:
        print("  PROPERTY VIOLATED:", sig, "-", msg)
    return 1 if bad else 0
