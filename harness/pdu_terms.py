"""Real pynetdicom PDU / item / primitive objects  <->  S-expression terms of
lean/PynetVerif/Driver/Pdu.lean (shared by C01 and C02).

terms:  PDU      [rq ver bCalled bCalling [item…]] | [ac …] | [rj r s d] | [pdata [[id bData]…]] | [relrq] | [relrp] | [abort s r]
        VarItem  [app bUid] | [pcrq id [syn…]] | [pcac id res [syn…]] | [ui [sub…]]
        SynItem  [abs bUid] | [ts bUid]
        UserSub  [maxlen n] | [impluid b] | [async i p] | [role b scu scp] | [implver b] | [sopext b b]
                 | [common ver b b [b…]] | [uidrq t r b b] | [uidac b]

`None` string/bytes attributes are written as the empty byte string (the Lean
value types have no None).  An item sitting at a level where the typed Lean
model has no place for it raises `LevelViolation`.
"""
from __future__ import annotations


class LevelViolation(Exception):
    pass


def _b(v) -> bytes:
    if v is None:
        return b""
    if isinstance(v, (bytes, bytearray)):
        return bytes(v)
    return str(v).encode("latin-1")


def _n(v) -> int:
    return 0 if v is None else int(v)


# --------------------------------------------------------------------------
# objects -> terms
# --------------------------------------------------------------------------
def syn_to_term(it):
    from pynetdicom import pdu_items as pi

    if type(it) is pi.AbstractSyntaxSubItem:
        return ["abs", _b(it.abstract_syntax_name)]
    if type(it) is pi.TransferSyntaxSubItem:
        return ["ts", _b(it.transfer_syntax_name)]
    raise LevelViolation(type(it).__name__)


def user_to_term(it):
    from pynetdicom import pdu_items as pi

    t = type(it)
    if t is pi.MaximumLengthSubItem:
        return ["maxlen", _n(it.maximum_length_received)]
    if t is pi.ImplementationClassUIDSubItem:
        return ["impluid", _b(it.implementation_class_uid)]
    if t is pi.AsynchronousOperationsWindowSubItem:
        return ["async", _n(it.maximum_number_operations_invoked), _n(it.maximum_number_operations_performed)]
    if t is pi.SCP_SCU_RoleSelectionSubItem:
        return ["role", _b(it.sop_class_uid), _n(it.scu_role), _n(it.scp_role)]
    if t is pi.ImplementationVersionNameSubItem:
        return ["implver", _b(it.implementation_version_name)]
    if t is pi.SOPClassExtendedNegotiationSubItem:
        return ["sopext", _b(it.sop_class_uid), _b(it.service_class_application_information)]
    if t is pi.SOPClassCommonExtendedNegotiationSubItem:
        return [
            "common",
            _n(it.sub_item_version),
            _b(it.sop_class_uid),
            _b(it.service_class_uid),
            [_b(u) for u in it.related_general_sop_class_identification],
        ]
    if t is pi.UserIdentitySubItemRQ:
        return [
            "uidrq",
            _n(it.user_identity_type),
            _n(it.positive_response_requested),
            _b(it.primary_field),
            _b(it.secondary_field),
        ]
    if t is pi.UserIdentitySubItemAC:
        return ["uidac", _b(it.server_response)]
    raise LevelViolation(t.__name__)


def var_to_term(it):
    from pynetdicom import pdu_items as pi

    t = type(it)
    if t is pi.ApplicationContextItem:
        return ["app", _b(it.application_context_name)]
    if t is pi.PresentationContextItemRQ:
        return ["pcrq", _n(it.presentation_context_id), [syn_to_term(s) for s in it.abstract_transfer_syntax_sub_items]]
    if t is pi.PresentationContextItemAC:
        return [
            "pcac",
            _n(it.presentation_context_id),
            _n(it.result_reason),
            [syn_to_term(s) for s in it.transfer_syntax_sub_item],
        ]
    if t is pi.UserInformationItem:
        return ["ui", [user_to_term(s) for s in it.user_data]]
    raise LevelViolation(t.__name__)


def pdu_to_term(p):
    from pynetdicom import pdu

    t = type(p)
    if t is pdu.A_ASSOCIATE_RQ:
        return ["rq", _n(p.protocol_version), _b(p.called_ae_title), _b(p.calling_ae_title),
                [var_to_term(i) for i in p.variable_items]]
    if t is pdu.A_ASSOCIATE_AC:
        return ["ac", _n(p.protocol_version), _b(p.reserved_aet), _b(p.reserved_aec),
                [var_to_term(i) for i in p.variable_items]]
    if t is pdu.A_ASSOCIATE_RJ:
        return ["rj", _n(p.result), _n(p.source), _n(p.reason_diagnostic)]
    if t is pdu.P_DATA_TF:
        return ["pdata", [[_n(i.presentation_context_id), _b(i.presentation_data_value)]
                          for i in p.presentation_data_value_items]]
    if t is pdu.A_RELEASE_RQ:
        return ["relrq"]
    if t is pdu.A_RELEASE_RP:
        return ["relrp"]
    if t is pdu.A_ABORT_RQ:
        return ["abort", _n(p.source), _n(p.reason_diagnostic)]
    raise TypeError(t)


# --------------------------------------------------------------------------
# terms -> objects (through the public attribute setters: the API validates)
# --------------------------------------------------------------------------
def _s(b: bytes) -> str:
    return b.decode("latin-1")


def syn_from_term(t):
    from pynetdicom import pdu_items as pi

    if t[0] == "abs":
        it = pi.AbstractSyntaxSubItem()
        it.abstract_syntax_name = _s(t[1])
    else:
        it = pi.TransferSyntaxSubItem()
        it.transfer_syntax_name = _s(t[1])
    return it


def user_from_term(t):
    from pynetdicom import pdu_items as pi

    k = t[0]
    if k == "maxlen":
        it = pi.MaximumLengthSubItem()
        it.maximum_length_received = t[1]
    elif k == "impluid":
        it = pi.ImplementationClassUIDSubItem()
        it.implementation_class_uid = _s(t[1])
    elif k == "async":
        it = pi.AsynchronousOperationsWindowSubItem()
        it.maximum_number_operations_invoked = t[1]
        it.maximum_number_operations_performed = t[2]
    elif k == "role":
        it = pi.SCP_SCU_RoleSelectionSubItem()
        it.sop_class_uid = _s(t[1])
        it.scu_role = t[2]
        it.scp_role = t[3]
    elif k == "implver":
        it = pi.ImplementationVersionNameSubItem()
        it.implementation_version_name = _s(t[1])
    elif k == "sopext":
        it = pi.SOPClassExtendedNegotiationSubItem()
        it.sop_class_uid = _s(t[1])
        it.service_class_application_information = t[2]
    elif k == "common":
        it = pi.SOPClassCommonExtendedNegotiationSubItem()
        it.sub_item_version = t[1]
        it.sop_class_uid = _s(t[2])
        it.service_class_uid = _s(t[3])
        it.related_general_sop_class_identification = [_s(u) for u in t[4]]
    elif k == "uidrq":
        it = pi.UserIdentitySubItemRQ()
        it.user_identity_type = t[1]
        it.positive_response_requested = t[2]
        it.primary_field = t[3]
        it.secondary_field = t[4]
    elif k == "uidac":
        it = pi.UserIdentitySubItemAC()
        it.server_response = t[1]
    else:
        raise ValueError(k)
    return it


def var_from_term(t):
    from pynetdicom import pdu_items as pi

    k = t[0]
    if k == "app":
        it = pi.ApplicationContextItem()
        it.application_context_name = _s(t[1])
    elif k == "pcrq":
        it = pi.PresentationContextItemRQ()
        it.presentation_context_id = t[1]
        it.abstract_transfer_syntax_sub_items = [syn_from_term(s) for s in t[2]]
    elif k == "pcac":
        it = pi.PresentationContextItemAC()
        it.presentation_context_id = t[1]
        it.result_reason = t[2]
        it.transfer_syntax_sub_item = [syn_from_term(s) for s in t[3]]
    elif k == "ui":
        it = pi.UserInformationItem()
        it.user_data = [user_from_term(s) for s in t[1]]
    else:
        raise ValueError(k)
    return it


def pdu_from_term(t):
    from pynetdicom import pdu
    from pynetdicom import pdu_items as pi

    k = t[0]
    if k == "rq":
        p = pdu.A_ASSOCIATE_RQ()
        p.protocol_version = t[1]
        p.called_ae_title = _s(t[2])
        p.calling_ae_title = _s(t[3])
        p.variable_items = [var_from_term(i) for i in t[4]]
    elif k == "ac":
        p = pdu.A_ASSOCIATE_AC()
        p.protocol_version = t[1]
        p.reserved_aet = _s(t[2])
        p.reserved_aec = _s(t[3])
        p.variable_items = [var_from_term(i) for i in t[4]]
    elif k == "rj":
        p = pdu.A_ASSOCIATE_RJ()
        p.result, p.source, p.reason_diagnostic = t[1], t[2], t[3]
    elif k == "pdata":
        p = pdu.P_DATA_TF()
        for cid, data in t[1]:
            it = pi.PresentationDataValueItem()
            it.presentation_context_id = cid
            it.presentation_data_value = data
            p.presentation_data_value_items.append(it)
    elif k == "relrq":
        p = pdu.A_RELEASE_RQ()
    elif k == "relrp":
        p = pdu.A_RELEASE_RP()
    elif k == "abort":
        p = pdu.A_ABORT_RQ()
        p.source, p.reason_diagnostic = t[1], t[2]
    else:
        raise ValueError(k)
    return p


# --------------------------------------------------------------------------
# primitives
#   [assocrq bCalling bCalled app|none [[id abs|none [ts…] res|none]…] [uprim…]] | [assocac …] | [assocrj r s d]
#   | [pdata [[id b]…]] | [releaserq] | [releaserp] | [abort s] | [pabort r]
#   uprim: [maxlen n] [impluid b] [implver b] [async i p] [role b T/F T/F] [sopext b b] [common b b [b…]]
#          [uidrq t T/F b b] [uidac b]
# --------------------------------------------------------------------------
def _ob(v):
    return None if v is None else _b(v)


def ctx_to_term(cx):
    return [_n(cx.context_id), _ob(cx.abstract_syntax), [_b(t) for t in cx.transfer_syntax],
            None if cx.result is None else int(cx.result)]


def uprim_to_term(u):
    n = type(u).__name__
    if n == "MaximumLengthNotification":
        return ["maxlen", u.maximum_length_received]
    if n == "ImplementationClassUIDNotification":
        return ["impluid", _b(u.implementation_class_uid)]
    if n == "ImplementationVersionNameNotification":
        return ["implver", _b(u.implementation_version_name)]
    if n == "AsynchronousOperationsWindowNegotiation":
        return ["async", u.maximum_number_operations_invoked, u.maximum_number_operations_performed]
    if n == "SCP_SCU_RoleSelectionNegotiation":
        return ["role", _b(u.sop_class_uid), bool(u.scu_role), bool(u.scp_role)]
    if n == "SOPClassExtendedNegotiation":
        return ["sopext", _b(u.sop_class_uid), _b(u.service_class_application_information)]
    if n == "SOPClassCommonExtendedNegotiation":
        return ["common", _b(u.sop_class_uid), _b(u.service_class_uid),
                [_b(x) for x in u.related_general_sop_class_identification]]
    if n == "UserIdentityNegotiation":
        if u.server_response is None:
            return ["uidrq", _n(u.user_identity_type), bool(u.positive_response_requested), _b(u.primary_field),
                    _b(u.secondary_field)]
        return ["uidac", _b(u.server_response)]
    raise TypeError(n)


def prim_to_term(p, kind=None):
    """`kind` disambiguates an A_ASSOCIATE primitive: 'rq' | 'ac' | 'rj' (default: by its result)."""
    from pynetdicom import pdu_primitives as pp

    if isinstance(p, pp.A_ASSOCIATE):
        if kind is None:
            kind = "rq" if p.result is None else ("ac" if p.result == 0 else "rj")
        if kind == "rj":
            return ["assocrj", _n(p.result), _n(p.result_source), _n(p.diagnostic)]
        cxs = p.presentation_context_definition_list if kind == "rq" else p.presentation_context_definition_results_list
        return ["assocrq" if kind == "rq" else "assocac", _b(p.calling_ae_title), _b(p.called_ae_title),
                _ob(p.application_context_name), [ctx_to_term(c) for c in cxs],
                [uprim_to_term(u) for u in p.user_information]]
    if isinstance(p, pp.P_DATA):
        return ["pdata", [[int(a), bytes(b)] for a, b in p.presentation_data_value_list]]
    if isinstance(p, pp.A_RELEASE):
        return ["releaserq"] if p.result is None else ["releaserp"]
    if isinstance(p, pp.A_ABORT):
        return ["abort", _n(p._abort_source)]
    if isinstance(p, pp.A_P_ABORT):
        return ["pabort", _n(p._provider_reason)]
    raise TypeError(type(p))


def uprim_from_term(t):
    from pynetdicom import pdu_primitives as pp

    k = t[0]
    if k == "maxlen":
        u = pp.MaximumLengthNotification()
        u.maximum_length_received = t[1]
    elif k == "impluid":
        u = pp.ImplementationClassUIDNotification()
        u.implementation_class_uid = _s(t[1])
    elif k == "implver":
        u = pp.ImplementationVersionNameNotification()
        u.implementation_version_name = _s(t[1])
    elif k == "async":
        u = pp.AsynchronousOperationsWindowNegotiation()
        u.maximum_number_operations_invoked = t[1]
        u.maximum_number_operations_performed = t[2]
    elif k == "role":
        u = pp.SCP_SCU_RoleSelectionNegotiation()
        u.sop_class_uid = _s(t[1])
        u.scu_role = t[2]
        u.scp_role = t[3]
    elif k == "sopext":
        u = pp.SOPClassExtendedNegotiation()
        u.sop_class_uid = _s(t[1])
        u.service_class_application_information = t[2]
    elif k == "common":
        u = pp.SOPClassCommonExtendedNegotiation()
        u.sop_class_uid = _s(t[1])
        u.service_class_uid = _s(t[2])
        u.related_general_sop_class_identification = [_s(x) for x in t[3]]
    elif k == "uidrq":
        u = pp.UserIdentityNegotiation()
        u.user_identity_type = t[1]
        u.positive_response_requested = t[2]
        u.primary_field = t[3]
        u.secondary_field = t[4]
    elif k == "uidac":
        u = pp.UserIdentityNegotiation()
        u.server_response = t[1]
    else:
        raise ValueError(k)
    return u


def prim_from_term(t):
    from pynetdicom import pdu_primitives as pp
    from pynetdicom.presentation import PresentationContext

    k = t[0]
    if k in ("assocrq", "assocac"):
        p = pp.A_ASSOCIATE()
        p.calling_ae_title = _s(t[1])
        p.called_ae_title = _s(t[2])
        p.application_context_name = None if t[3] is None else _s(t[3])
        cxs = []
        for cid, ab, ts, res in t[4]:
            cx = PresentationContext()
            cx.context_id = cid
            if ab is not None:
                cx.abstract_syntax = _s(ab)
            cx.transfer_syntax = [_s(x) for x in ts]
            cx.result = res
            cxs.append(cx)
        if k == "assocrq":
            p.presentation_context_definition_list = cxs
        else:
            p.presentation_context_definition_results_list = cxs
            p.result = 0
        p.user_information = [uprim_from_term(u) for u in t[5]]
    elif k == "assocrj":
        p = pp.A_ASSOCIATE()
        p.result, p.result_source, p.diagnostic = t[1], t[2], t[3]
    elif k == "pdata":
        p = pp.P_DATA()
        p.presentation_data_value_list = [[a, b] for a, b in t[1]]
    elif k == "releaserq":
        p = pp.A_RELEASE()
    elif k == "releaserp":
        p = pp.A_RELEASE()
        p.result = "affirmative"
    elif k == "abort":
        p = pp.A_ABORT()
        p.abort_source = t[1]
    elif k == "pabort":
        p = pp.A_P_ABORT()
        p.provider_reason = t[1]
    else:
        raise ValueError(k)
    return p


PDU_CLASS_OF_PRIM = {"assocrq": "A_ASSOCIATE_RQ", "assocac": "A_ASSOCIATE_AC", "assocrj": "A_ASSOCIATE_RJ",
                     "pdata": "P_DATA_TF", "releaserq": "A_RELEASE_RQ", "releaserp": "A_RELEASE_RP",
                     "abort": "A_ABORT_RQ", "pabort": "A_ABORT_RQ"}


def jsonify(t):
    """term -> JSON-able (bytes as 'x<hex>') and back (`unjson`)."""
    if isinstance(t, (bytes, bytearray)):
        return "x" + bytes(t).hex()
    if isinstance(t, (list, tuple)):
        return [jsonify(x) for x in t]
    return t


def unjson(t):
    if isinstance(t, str) and t.startswith("x") and all(c in "0123456789abcdef" for c in t[1:]) and len(t) % 2 == 1:
        return bytes.fromhex(t[1:])
    if isinstance(t, list):
        return [unjson(x) for x in t]
    return t


# --------------------------------------------------------------------------
# independent Python walker for LengthsExact (C01) — written against PS3.8 §9.3 / PS3.7 D.3.3,
# not against the Lean walker
# --------------------------------------------------------------------------
def _items(b: bytes):
    """[(type, body)] if b is tiled exactly by (type, reserved, u16 len, body) items, else None."""
    out, off = [], 0
    while off < len(b):
        if off + 4 > len(b):
            return None
        n = int.from_bytes(b[off + 2:off + 4], "big")
        if off + 4 + n > len(b):
            return None
        out.append((b[off], b[off + 4:off + 4 + n]))
        off += 4 + n
    return out


def _user_ok(t, body) -> bool:
    u16 = lambda o: int.from_bytes(body[o:o + 2], "big")
    if t in (0x51, 0x53):
        return len(body) == 4
    if t == 0x54:
        return len(body) >= 2 and len(body) == 2 + u16(0) + 2
    if t == 0x56:
        return len(body) >= 2 and 2 + u16(0) <= len(body)
    if t == 0x57:
        if len(body) < 2:
            return False
        o = 2 + u16(0)
        if len(body) < o + 2:
            return False
        o2 = o + 2 + u16(o)
        if len(body) < o2 + 2:
            return False
        rel = body[o2 + 2:]
        if len(rel) != u16(o2):
            return False
        p = 0
        while p < len(rel):
            if p + 2 > len(rel):
                return False
            p += 2 + int.from_bytes(rel[p:p + 2], "big")
        return p == len(rel)
    if t == 0x58:
        if len(body) < 4:
            return False
        o = 4 + u16(2)
        return len(body) >= o + 2 and len(body) == o + 2 + u16(o)
    if t == 0x59:
        return len(body) >= 2 and len(body) == 2 + u16(0)
    return True


def lengths_exact(b: bytes) -> bool:
    if len(b) < 6 or int.from_bytes(b[2:6], "big") != len(b) - 6:
        return False
    t, body = b[0], b[6:]
    if t in (1, 2):
        if len(body) < 68:
            return False
        items = _items(body[68:])
        if items is None:
            return False
        for it, ib in items:
            if it in (0x20, 0x21):
                if len(ib) < 4 or _items(ib[4:]) is None:
                    return False
            elif it == 0x50:
                subs = _items(ib)
                if subs is None or not all(_user_ok(st, sb) for st, sb in subs):
                    return False
        return True
    if t == 4:
        off = 0
        while off < len(body):
            if off + 4 > len(body):
                return False
            n = int.from_bytes(body[off:off + 4], "big")
            if n < 1 or off + 4 + n > len(body):
                return False
            off += 4 + n
        return True
    return len(body) == 4
