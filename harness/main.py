import argparse
import os
import sys

from .common import run_check


def main():
    ap = argparse.ArgumentParser()
    ap.add_argument("pid")
    ap.add_argument("--tier", default=os.environ.get("VERIF_TIER", "quick"), choices=["quick", "thorough"])
    ap.add_argument("--replay")
    a = ap.parse_args()
    seed = int(os.environ.get("VERIF_SEED", "0") or 0)
    sys.exit(run_check(a.pid.upper(), a.tier, seed, a.replay))


if __name__ == "__main__":
    main()
