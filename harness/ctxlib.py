"""Shared machinery of C18/C19: real `Association` objects without a network,
generated accepted-context sets, the S-expression encoding of `Model/Ctx.lean`
values, recording fakes for `dimse.send_msg`/`abort`, request builders for the 11
DIMSE request kinds and a small loopback harness with a PDV wire tap.

Everything here reads the real code (pynetdicom from /repo, pydicom's UID class);
nothing re-implements `_get_valid_context`, `_serve_request` or `_c_store_scp`.
"""
from __future__ import annotations

import logging
import os
import tempfile
import threading
import time
from io import BytesIO

from pydicom.dataset import Dataset, FileMetaDataset
from pydicom.uid import UID

# ---------------------------------------------------------------------------
# UID pools and their model codes
# ---------------------------------------------------------------------------
UPS_PUSH = "1.2.840.10008.5.1.4.34.6.1"
UPS_WATCH = "1.2.840.10008.5.1.4.34.6.2"
UPS_PULL = "1.2.840.10008.5.1.4.34.6.3"
UPS_EVENT = "1.2.840.10008.5.1.4.34.6.4"
UPS_QUERY = "1.2.840.10008.5.1.4.34.6.5"
VERIFICATION = "1.2.840.10008.1.1"
CT = "1.2.840.10008.5.1.4.1.1.2"
MR = "1.2.840.10008.5.1.4.1.1.4"
SC = "1.2.840.10008.5.1.4.1.1.7"
PR_FIND = "1.2.840.10008.5.1.4.1.2.1.1"
PR_MOVE = "1.2.840.10008.5.1.4.1.2.1.2"
PR_GET = "1.2.840.10008.5.1.4.1.2.1.3"
SR_FIND = "1.2.840.10008.5.1.4.1.2.2.1"
MWL_FIND = "1.2.840.10008.5.1.4.31"
MPPS = "1.2.840.10008.3.1.2.3.3"
PRINT_JOB = "1.2.840.10008.5.1.1.14"
FILM_SESSION = "1.2.840.10008.5.1.1.1"
GRAY_PRINT_META = "1.2.840.10008.5.1.1.9"
STORAGE_COMMIT = "1.2.840.10008.1.20.1"
DISPLAY_SYSTEM = "1.2.840.10008.5.1.1.40"
PROC_EVENT_LOG = "1.2.840.10008.1.40"
INSTANCE_AVAIL = "1.2.840.10008.5.1.4.33"
MEDIA_CREATION = "1.2.840.10008.5.1.1.33"
RT_CONV_VERIF = "1.2.840.10008.5.1.4.34.8"
RELEVANT_PATIENT = "1.2.840.10008.5.1.4.37.1"
SUBSTANCE = "1.2.840.10008.5.1.4.41"
COLOR_PALETTE_FIND = "1.2.840.10008.5.1.4.39.2"
INVENTORY_CREATION = "1.2.840.10008.5.1.4.1.1.201.5"
PRIVATE_CLASS = "1.2.826.0.1.3680043.9.7777.1"

AB_CODE = {UPS_PUSH: 1, UPS_WATCH: 2, UPS_PULL: 3, UPS_EVENT: 4, UPS_QUERY: 5, VERIFICATION: 6}
_OTHER_AB = [CT, MR, SC, PR_FIND, PR_MOVE, PR_GET, SR_FIND, MWL_FIND, MPPS, PRINT_JOB, FILM_SESSION,
             GRAY_PRINT_META, STORAGE_COMMIT, DISPLAY_SYSTEM, PROC_EVENT_LOG, INSTANCE_AVAIL, MEDIA_CREATION,
             RT_CONV_VERIF, RELEVANT_PATIENT, SUBSTANCE, COLOR_PALETTE_FIND, INVENTORY_CREATION, PRIVATE_CLASS]
for _i, _u in enumerate(_OTHER_AB):
    AB_CODE[_u] = 10 + _i

IMPLICIT_LE = "1.2.840.10008.1.2"
EXPLICIT_LE = "1.2.840.10008.1.2.1"
EXPLICIT_BE = "1.2.840.10008.1.2.2"
DEFLATED_LE = "1.2.840.10008.1.2.1.99"
JPEG_BASELINE = "1.2.840.10008.1.2.4.50"
JPEG2K_LOSSLESS = "1.2.840.10008.1.2.4.90"
RLE = "1.2.840.10008.1.2.5"
PRIVATE_TS_UNKNOWN = "1.2.826.0.1.3680043.9.7777.2"   # pydicom: not a transfer syntax -> is_compressed raises
PRIVATE_TS_REGISTERED = "1.2.826.0.1.3680043.9.7777.3"  # set_private_encoding(False, True)
TS_POOL = [IMPLICIT_LE, EXPLICIT_LE, EXPLICIT_BE, DEFLATED_LE, JPEG_BASELINE, JPEG2K_LOSSLESS, RLE,
           PRIVATE_TS_UNKNOWN, PRIVATE_TS_REGISTERED]
TS_PUBLIC = TS_POOL[:7]
TS_UNCOMPRESSED = TS_POOL[:4]
TS_CODE = {u: 20 + i for i, u in enumerate(TS_POOL)}


def ts_uid(s: str) -> UID:
    u = UID(s)
    if s == PRIVATE_TS_REGISTERED:
        u.set_private_encoding(False, True)
    return u


def ts_term(s):
    """(uid known compressed little) as pydicom's UID class reports them; '' -> none."""
    if s == "" or s is None:
        return None
    u = s if isinstance(s, UID) else ts_uid(s)     # a UID object is taken as the code sees it
    known = bool(u.is_transfer_syntax)
    return [TS_CODE[str(u)], known, bool(u.is_compressed) if known else False,
            bool(u.is_little_endian) if known else False]


def cx_term(cx):
    return [cx.context_id, AB_CODE[str(cx.abstract_syntax)], ts_term(cx.transfer_syntax[0]),
            cx.as_scu is True, cx.as_scp is True]


def acc_term(accepted: dict):
    """the dict's values in insertion order (what `_accepted_cx.values()` iterates)."""
    return [cx_term(cx) for cx in accepted.values()]


# ---------------------------------------------------------------------------
# real objects
# ---------------------------------------------------------------------------
def quiet():
    logging.getLogger("pynetdicom").setLevel(logging.CRITICAL + 10)
    logging.getLogger("pydicom").setLevel(logging.CRITICAL + 10)


def make_cx(cid, ab, ts, as_scu=True, as_scp=False):
    from pynetdicom.presentation import PresentationContext

    cx = PresentationContext()
    cx.context_id = cid
    cx.abstract_syntax = ab
    cx._transfer_syntax = [ts_uid(ts)]
    cx.result = 0
    cx._as_scu = as_scu
    cx._as_scp = as_scp
    return cx


class Rec:
    """what an in-process call did at the three observation points."""

    def __init__(self):
        self.sent = []      # (context id, primitive class name, Status or None, primitive)
        self.aborts = 0
        self.handlers = []  # (event name, context id seen by the handler)


def make_assoc(mode="requestor"):
    """A real Association (dummy AE, never started, no socket) with recording fakes
    on `dimse.send_msg` and the abort methods."""
    from pynetdicom import AE
    from pynetdicom.association import Association

    quiet()
    ae = AE()
    assoc = Association(ae, mode)
    assoc.is_established = True
    assoc._is_paused = True     # the send_* methods spin until the reactor is parked
    rec = Rec()

    def send_msg(primitive, context_id):
        rec.sent.append((context_id, type(primitive).__name__, getattr(primitive, "Status", None), primitive))

    def abort(*a, **k):
        rec.aborts += 1

    assoc.dimse.send_msg = send_msg
    assoc.dimse.get_msg = lambda block=False: (None, None)
    assoc._handle_no_response = lambda: None
    assoc.abort = abort
    assoc._abort_blocking = abort       # VerificationServiceClass re-binds `abort` to these
    assoc._abort_nonblocking = abort
    assoc._verif_rec = rec
    return assoc, rec


EVENT_KIND = {
    "EVT_C_ECHO": "cEcho", "EVT_C_STORE": "cStore", "EVT_C_FIND": "cFind", "EVT_C_GET": "cGet",
    "EVT_C_MOVE": "cMove", "EVT_N_EVENT_REPORT": "nEventReport", "EVT_N_GET": "nGet", "EVT_N_SET": "nSet",
    "EVT_N_ACTION": "nAction", "EVT_N_CREATE": "nCreate", "EVT_N_DELETE": "nDelete",
}
KINDS = list(EVENT_KIND.values())


def handlers_for(record):
    """(event, handler) pairs for all 11 intervention events, bound through the
    real `evt` mechanism; each records (kind, event.context.context_id) and gives
    the smallest valid answer."""
    from pynetdicom import evt

    def mk(name):
        kind = EVENT_KIND[name]

        def note(event):
            record.append((kind, event.context.context_id))

        if kind in ("cEcho", "cStore", "nDelete"):
            def h(event):
                note(event)
                return 0x0000
        elif kind == "cFind":
            def h(event):
                note(event)
                yield 0x0000, None
        elif kind == "cGet":
            def h(event):
                note(event)
                yield 0
        elif kind == "cMove":
            def h(event):
                note(event)
                yield None, None
        else:
            def h(event):
                note(event)
                return 0x0000, None
        return h

    return [(getattr(evt, n), mk(n)) for n in EVENT_KIND]


def bind_all(assoc, record):
    """bind the recording handlers (an intervention event has one handler; `bind` replaces the default)."""
    for e, h in handlers_for(record):
        assoc.bind(e, h)


def small_ds():
    ds = Dataset()
    ds.PatientName = "VERIF^CTX"
    ds.PatientID = "12345"
    ds.QueryRetrieveLevel = "PATIENT"
    return ds


def enc(ds, ts=IMPLICIT_LE):
    from pynetdicom.dsutils import encode

    u = ts_uid(ts)
    return encode(ds, u.is_implicit_VR, u.is_little_endian, u.is_deflated)


def make_request(kind, class_uid, msg_id=7, valid=True, ts=IMPLICIT_LE):
    """A request primitive of the given kind for `class_uid` (what
    `message_to_primitive` would hand to `_serve_request`)."""
    from pynetdicom import dimse_primitives as P

    ident = BytesIO(enc(small_ds(), ts))
    inst = "1.2.826.0.1.3680043.9.7777.100.1"
    if kind == "cEcho":
        r = P.C_ECHO(); r.AffectedSOPClassUID = class_uid
    elif kind == "cStore":
        r = P.C_STORE(); r.AffectedSOPClassUID = class_uid; r.AffectedSOPInstanceUID = inst
        r.Priority = 2; r.DataSet = ident
    elif kind == "cFind":
        r = P.C_FIND(); r.AffectedSOPClassUID = class_uid; r.Priority = 2; r.Identifier = ident
    elif kind == "cGet":
        r = P.C_GET(); r.AffectedSOPClassUID = class_uid; r.Priority = 2; r.Identifier = ident
    elif kind == "cMove":
        r = P.C_MOVE(); r.AffectedSOPClassUID = class_uid; r.Priority = 2; r.Identifier = ident
        r.MoveDestination = "DEST"
    elif kind == "nEventReport":
        r = P.N_EVENT_REPORT(); r.AffectedSOPClassUID = class_uid; r.AffectedSOPInstanceUID = inst
        r.EventTypeID = 1
    elif kind == "nGet":
        r = P.N_GET(); r.RequestedSOPClassUID = class_uid; r.RequestedSOPInstanceUID = inst
    elif kind == "nSet":
        r = P.N_SET(); r.RequestedSOPClassUID = class_uid; r.RequestedSOPInstanceUID = inst
        r.ModificationList = ident
    elif kind == "nAction":
        r = P.N_ACTION(); r.RequestedSOPClassUID = class_uid; r.RequestedSOPInstanceUID = inst
        r.ActionTypeID = 1
    elif kind == "nCreate":
        r = P.N_CREATE(); r.AffectedSOPClassUID = class_uid
    elif kind == "nDelete":
        r = P.N_DELETE(); r.RequestedSOPClassUID = class_uid; r.RequestedSOPInstanceUID = inst
    else:
        raise ValueError(kind)
    if valid:
        r.MessageID = msg_id
    return r


SVC_NAME = {
    "VerificationServiceClass": "verification", "StorageServiceClass": "storage",
    "NonPatientObjectStorageServiceClass": "storage", "QueryRetrieveServiceClass": "qr",
    "ColorPaletteQueryRetrieveServiceClass": "qr", "DefinedProcedureProtocolQueryRetrieveServiceClass": "qr",
    "HangingProtocolQueryRetrieveServiceClass": "qr", "ImplantTemplateQueryRetrieveServiceClass": "qr",
    "InventoryQueryRetrieveServiceClass": "qr", "ProtocolApprovalQueryRetrieveServiceClass": "qr",
    "BasicWorklistManagementServiceClass": "worklist", "SubstanceAdministrationQueryServiceClass": "substance",
    "RelevantPatientInformationQueryServiceClass": "relevantPatient",
    "ApplicationEventLoggingServiceClass": "appEvent", "DisplaySystemManagementServiceClass": "display",
    "InstanceAvailabilityNotificationServiceClass": "instanceAvail",
    "MediaCreationManagementServiceClass": "mediaCreation", "PrintManagementServiceClass": "print",
    "ProcedureStepServiceClass": "procedureStep", "RTMachineVerificationServiceClass": "rtMachine",
    "StorageCommitmentServiceClass": "storageCommit", "StorageManagementServiceClass": "storageMgmt",
    "UnifiedProcedureStepServiceClass": "ups", "ServiceClass": "base",
}
MSG_TYPE = {"cFind": "C-FIND", "cGet": "C-GET", "cMove": "C-MOVE"}


def svc_of(class_uid):
    """(model service-class symbol, the real class) for a SOP class UID: the real
    `uid_to_service_class` table lookup, an input of the model."""
    from pynetdicom.sop_class import uid_to_service_class

    cls = uid_to_service_class(class_uid)
    return SVC_NAME[cls.__name__], cls


def supported_flag(cls, kind, cx):
    """`context.abstract_syntax in self._SUPPORTED_UIDS[<message type>]` read from the real class."""
    tab = getattr(cls, "_SUPPORTED_UIDS", None)
    if cx is None or tab is None or kind not in MSG_TYPE:
        return False
    return str(cx.abstract_syntax) in tab.get(MSG_TYPE[kind], [])


# ---------------------------------------------------------------------------
# generators
# ---------------------------------------------------------------------------
def gen_ids(rng, n, lo_bias=True):
    """n distinct odd ids 1..255 in random (insertion) order."""
    ids = set()
    while len(ids) < n:
        if lo_bias and rng.random() < 0.7:
            ids.add(rng.choice([1, 3, 5, 7, 9, 11, 13]))
        else:
            ids.add(rng.randrange(0, 128) * 2 + 1)
    ids = list(ids)
    rng.shuffle(ids)
    return ids


def gen_accepted(rng, abs_pool, ts_pool, n=None, roles=None):
    if n is None:
        n = rng.choice([0, 1, 1, 2, 2, 3, 3, 4, 5, 7])
    acc = {}
    for cid in gen_ids(rng, n):
        if roles is None:
            r = rng.random()
            scu, scp = (True, False) if r < 0.45 else (True, True) if r < 0.6 else (False, True) if r < 0.8 else (
                rng.choice([True, False, None]), rng.choice([True, False, None]))
        else:
            scu, scp = roles
        acc[cid] = make_cx(cid, rng.choice(abs_pool), rng.choice(ts_pool), scu, scp)
    return acc


def case_of_acc(acc):
    """JSON-able description of an accepted set (replayable)."""
    return [[cx.context_id, str(cx.abstract_syntax), str(cx.transfer_syntax[0]), cx.as_scu, cx.as_scp]
            for cx in acc.values()]


def acc_of_case(desc):
    return {c[0]: make_cx(c[0], c[1], c[2], c[3], c[4]) for c in desc}


# ---------------------------------------------------------------------------
# loopback harness with wire tap
# ---------------------------------------------------------------------------
class Tap:
    """PDV context ids of every P-DATA-TF PDU one side sent (EVT_PDU_SENT) and the
    reassembled command/data streams per message."""

    def __init__(self):
        self.pdvs = []       # (context id, is_command, is_last, bytes)
        self.lock = threading.Lock()

    def handler(self, event):
        from pynetdicom.pdu import P_DATA_TF

        pdu = event.pdu
        if isinstance(pdu, P_DATA_TF):
            with self.lock:
                for item in pdu.presentation_data_value_items:
                    v = item.presentation_data_value
                    self.pdvs.append((item.presentation_context_id, bool(v[0] & 1), bool(v[0] & 2), bytes(v[1:])))

    def messages(self):
        """[(context ids used, command bytes, data bytes or None)] in order."""
        out, cur = [], None
        with self.lock:
            pdvs = list(self.pdvs)
        for cid, is_cmd, last, data in pdvs:
            if is_cmd:
                if cur is None or cur["cmd_done"]:
                    if cur is not None:
                        out.append(cur)
                    cur = {"ids": [], "cmd": b"", "data": None, "cmd_done": False}
                cur["ids"].append(cid)
                cur["cmd"] += data
                if last:
                    cur["cmd_done"] = True
            else:
                if cur is None:
                    cur = {"ids": [], "cmd": b"", "data": None, "cmd_done": True}
                cur["ids"].append(cid)
                cur["data"] = (cur["data"] or b"") + data
        if cur is not None:
            out.append(cur)
        return out


def command_of(cmd_bytes):
    from pynetdicom.dsutils import decode

    return decode(BytesIO(cmd_bytes), True, True)


def wait_until(pred, timeout=5.0, step=0.005):
    t0 = time.monotonic()
    while time.monotonic() - t0 < timeout:
        if pred():
            return True
        time.sleep(step)
    return pred()


def new_ae(timeout=3.0):
    from pynetdicom import AE

    quiet()
    ae = AE()
    ae.acse_timeout = timeout
    ae.dimse_timeout = timeout
    ae.network_timeout = timeout
    ae.connection_timeout = timeout
    return ae


def store_dataset(sop_class=CT, ts=EXPLICIT_LE, with_pixels=False):
    ds = Dataset()
    ds.file_meta = FileMetaDataset()
    ds.file_meta.TransferSyntaxUID = ts_uid(ts)
    ds.file_meta.MediaStorageSOPClassUID = sop_class
    ds.file_meta.MediaStorageSOPInstanceUID = "1.2.826.0.1.3680043.9.7777.100.2"
    ds.SOPClassUID = sop_class
    ds.SOPInstanceUID = "1.2.826.0.1.3680043.9.7777.100.2"
    ds.PatientName = "VERIF^STORE"
    ds.PatientID = "0815"
    ds.Rows = 2
    ds.Columns = 2
    return ds


_TMP = None


def store_file(sop_class, ts):
    """a Part-10 file with the given file-meta transfer syntax (data set written
    in the matching uncompressed encoding), for the chunked send path."""
    global _TMP
    from pydicom.filewriter import dcmwrite

    if _TMP is None:
        import atexit
        import shutil

        _TMP = tempfile.mkdtemp(prefix="verif-ctx-")
        atexit.register(shutil.rmtree, _TMP, ignore_errors=True)
    path = os.path.join(_TMP, f"{AB_CODE[sop_class]}-{TS_CODE[ts]}.dcm")
    if not os.path.exists(path):
        ds = store_dataset(sop_class, ts)
        u = ts_uid(ts)
        known = u.is_transfer_syntax
        implicit = bool(u.is_implicit_VR) if known else False
        little = bool(u.is_little_endian) if known else True
        dcmwrite(path, ds, implicit_vr=implicit, little_endian=little, enforce_file_format=True)
    return path


# ---------------------------------------------------------------------------
# scripted peers (DIMSE level): the peer is a pynetdicom AE whose messages are
# injected with `dimse.send_msg(primitive, <any context id>)`, which performs no
# context check — the side under test is the other one.
# ---------------------------------------------------------------------------
def start_acceptor(supported, seen, extra_handlers=None):
    """acceptor AE on loopback port 0 with recording handlers for all 11 events"""
    scp = new_ae()
    for ab, tss, scu_role, scp_role in supported:
        scp.add_supported_context(ab, [ts_uid(t) for t in tss], scu_role=scu_role, scp_role=scp_role)
    handlers = dict(handlers_for(seen))
    handlers.update(extra_handlers or {})
    server = scp.start_server(("127.0.0.1", 0), block=False, evt_handlers=list(handlers.items()))
    return server, server.socket.getsockname()[1]


def raw_request(assoc, req, cid, timeout=2.5):
    """send `req` on context id `cid` from an established requestor association with
    its reactor parked (as the send_* methods do); -> (response item or None, aborted)"""
    import queue as _q

    assoc._reactor_checkpoint.clear()
    wait_until(lambda: assoc._is_paused, 2.0, 0.001)
    assoc.dimse.send_msg(req, cid)
    rsp = None
    t0 = time.monotonic()
    while time.monotonic() - t0 < timeout:
        try:
            rsp = assoc.dimse.msg_queue.get(timeout=0.02)
            if rsp[1] is None:      # (None, None): the DUL's "association is gone" sentinel, not a message
                rsp = None
            break
        except _q.Empty:
            pass
        if assoc.acse.is_aborted() or not assoc.dul.is_alive():
            break
    assoc._reactor_checkpoint.set()
    wait_until(lambda: assoc.is_aborted or assoc.is_released or not assoc.is_established, 1.5 if rsp is None else 0.05)
    return rsp, bool(assoc.is_aborted)


def run_cget_script(script, requested, supported):
    """A C-GET SCP that, inside its EVT_C_GET handler, sends the C-STORE sub-operation
    requests of `script` = [(context id, SOP class)] on exactly those ids (accepted or
    not) and waits for each answer; the C-GET SCU is plain pynetdicom.
    -> dict(accepted, subops=[dict(cid, ab, handler=[ctx ids], rsp=(ctx id, status) | None)],
            scu_pdv_ids=[ctx ids of C-STORE-RSP PDVs the SCU sent], aborted, final)"""
    from pynetdicom import evt, build_role
    from pynetdicom import dimse_primitives as P

    stored = []
    result = {"subops": [], "error": None}

    def on_get(event):
        a = event.assoc
        try:
            for i, (cid, ab) in enumerate(script):
                req = P.C_STORE()
                req.MessageID = 100 + i
                req.AffectedSOPClassUID = ab
                req.AffectedSOPInstanceUID = f"1.2.826.0.1.3680043.9.7777.200.{i}"
                req.Priority = 2
                req.DataSet = BytesIO(enc(small_ds(), IMPLICIT_LE))
                n0 = len(stored)
                a.dimse.send_msg(req, cid)
                item = a.dimse.get_msg(block=True)
                rsp = None if item[1] is None else (item[0], getattr(item[1], "Status", None))
                result["subops"].append({"cid": cid, "ab": ab, "handler": list(stored[n0:]), "rsp": rsp})
                if rsp is None:
                    break
        except Exception as exc:       # the script itself failed: not a verdict
            result["error"] = repr(exc)
        yield 0

    seen = []
    server, port = start_acceptor(supported, seen, {evt.EVT_C_GET: on_get})
    scu = new_ae(timeout=2.0)
    roles = []
    for ab, tss, role in requested:
        scu.add_requested_context(ab, [ts_uid(t) for t in tss])
        if role is not None and not any(r.sop_class_uid == ab for r in roles):
            roles.append(build_role(ab, scu_role=role[0], scp_role=role[1]))
    tap = Tap()

    def on_store(event):
        stored.append(event.context.context_id)
        return 0x0000

    try:
        assoc = scu.associate("127.0.0.1", port, ext_neg=roles,
                              evt_handlers=[(evt.EVT_PDU_SENT, tap.handler), (evt.EVT_C_STORE, on_store)])
        if not assoc.is_established:
            result["error"] = "association not established"
            return result
        result["accepted"] = dict(assoc._accepted_cx)
        final = list(assoc.send_c_get(small_ds(), PR_GET))
        result["final"] = [getattr(st, "Status", None) for st, _ in final]
        wait_until(lambda: assoc.dul.to_provider_queue.empty(), 1.0)
        time.sleep(0.03)
        result["scu_pdv_ids"] = [m["ids"][0] for m in tap.messages()
                                 if command_of(m["cmd"]).get("CommandField") == 0x8001]
        result["aborted"] = bool(assoc.is_aborted)
        if assoc.is_established:
            assoc.release()
    finally:
        server.shutdown()
    return result


_GUARD = []


def substore_guard():
    """`Gen.Glue.subStoreRejectsUnaccepted` as regenerated from the source this run: does `_c_store_scp` reject a
    request whose context id is not accepted before looking for a context?"""
    if not _GUARD:
        from translate import glue

        _GUARD.append(bool(glue.sub_store_rejects_unaccepted()))
    return _GUARD[0]
