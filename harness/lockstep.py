"""Lockstep driver for the real `DULServiceProvider.run_reactor`.

With PYNETDICOM_VERIF=1 the reactor calls `_verif.point("dul.iter", dul)` at the top of every
iteration and `_verif.point("dul.dispatch", (dul, event))` right before `do_action`. The callback
installed here parks the reactor thread at those points until the harness grants the next
micro-step, so a schedule of model steps (`a`, `b`, environment steps) can be interpreted on the
real object and its state compared with the Lean model after every step.
"""
from __future__ import annotations

import os
import select
import socket
import threading
import time

os.environ.setdefault("PYNETDICOM_VERIF", "1")


class Gate:
    """Parks one thread at named points; the controller releases it one point at a time."""

    def __init__(self):
        self.cv = threading.Condition()
        self.at = None  # name of the point the thread is parked at
        self.payload = None
        self.grant = False

    def park(self, name, payload=None):
        with self.cv:
            self.at, self.payload = name, payload
            self.cv.notify_all()
            while not self.grant:
                self.cv.wait()
            self.grant = False
            self.at = None

    def release_and_wait(self, thread, timeout=5.0):
        """let the parked thread go and wait until it parks again or exits"""
        with self.cv:
            self.grant = True
            self.cv.notify_all()
            deadline = time.monotonic() + timeout
            while (self.grant or self.at is None) and thread.is_alive():
                if time.monotonic() > deadline:
                    raise TimeoutError("reactor did not reach the next hook point")
                self.cv.wait(0.01)
        if not thread.is_alive():
            thread.join(1)

    def wait_parked(self, thread, timeout=5.0):
        with self.cv:
            deadline = time.monotonic() + timeout
            while self.at is None and thread.is_alive():
                if time.monotonic() > deadline:
                    raise TimeoutError("reactor did not reach the first hook point")
                self.cv.wait(0.01)


_routes = {}  # id(dul) -> Gate


def _callback(name, obj):
    if name == "dul.iter":
        g = _routes.get(id(obj))
        if g is not None:
            g.park("iter")
    elif name == "dul.dispatch":
        g = _routes.get(id(obj[0]))
        if g is not None:
            g.park("dispatch", obj[1])


def _assoc_prim(result=None, addr=None):
    from pynetdicom.pdu_primitives import (
        A_ASSOCIATE, ImplementationClassUIDNotification, MaximumLengthNotification,
    )
    from pynetdicom.presentation import build_context
    from pynetdicom.transport import AddressInformation

    p = A_ASSOCIATE()
    p.application_context_name = "1.2.840.10008.3.1.1.1"
    p.calling_ae_title = "CALLING"
    p.called_ae_title = "CALLED"
    p.calling_presentation_address = AddressInformation("127.0.0.1", 0)
    p.called_presentation_address = addr or AddressInformation("127.0.0.1", 11113)
    ml = MaximumLengthNotification()
    ml.maximum_length_received = 16382
    ic = ImplementationClassUIDNotification()
    ic.implementation_class_uid = "1.2.3.4"
    p.user_information = [ml, ic]
    cx = build_context("1.2.840.10008.1.1")
    cx.context_id = 1
    if result is None:
        p.presentation_context_definition_list = [cx]
    elif result == 0:
        cx.result = 0
        cx.transfer_syntax = [cx.transfer_syntax[0]]
        p.presentation_context_definition_results_list = [cx]
        p.result = 0
    else:
        p.result, p.result_source, p.diagnostic = 1, 1, 1
    return p


def wire_bytes(evt, alt):
    from pynetdicom.pdu import (
        A_ABORT_RQ, A_ASSOCIATE_AC, A_ASSOCIATE_RJ, A_ASSOCIATE_RQ, A_RELEASE_RP, A_RELEASE_RQ, P_DATA_TF,
    )
    from pynetdicom.pdu_primitives import A_RELEASE, P_DATA

    if evt == 3:
        return A_ASSOCIATE_AC(_assoc_prim(0)).encode()
    if evt == 4:
        return A_ASSOCIATE_RJ(_assoc_prim(1)).encode()
    if evt == 6:
        b = bytearray(A_ASSOCIATE_RQ(_assoc_prim()).encode())
        if alt:
            b[6:8] = b"\x00\x02"
        return bytes(b)
    if evt == 10:
        if alt:  # a complete command fragment that is not a decodable command set
            p = P_DATA()
            p.presentation_data_value_list = [[1, b"\x03\x00\x00"]]
            return P_DATA_TF(p).encode()
        from pynetdicom.dimse_messages import C_ECHO_RQ
        from pynetdicom.dimse_primitives import C_ECHO

        c = C_ECHO()
        c.MessageID = 1
        c.AffectedSOPClassUID = "1.2.840.10008.1.1"
        m = C_ECHO_RQ()
        m.primitive_to_message(c)
        return P_DATA_TF(next(iter(m.encode_msg(1, 16382)))).encode()
    if evt == 12:
        return A_RELEASE_RQ().encode()
    if evt == 13:
        return A_RELEASE_RP().encode()
    if evt == 16:
        a = A_ABORT_RQ()
        a.source, a.reason_diagnostic = (2, 1) if alt else (0, 0)
        return a.encode()
    raise ValueError(evt)


class RealDul:
    """A real Association + DUL thread under lockstep control."""

    def __init__(self, requestor: bool):
        from pynetdicom import AE, _verif, evt
        from pynetdicom.association import Association
        from pynetdicom.transport import AddressInformation, AssociationSocket

        from .e2e import quiet

        quiet()
        _verif.install(_callback)
        self.requestor = requestor
        self.errors = []
        self.gate = Gate()
        self.transitions, self.data_sent, self.closes = [], 0, 0
        ae = AE()
        ae.network_timeout = ae.acse_timeout = 3600
        self.assoc = Association(ae, "requestor" if requestor else "acceptor")
        self.assoc.network_timeout = None
        self.peer = None
        self.listener = None
        if requestor:
            self.listener = socket.socket()
            self.listener.bind(("127.0.0.1", 0))
            self.listener.listen(1)
            self.addr = AddressInformation("127.0.0.1", self.listener.getsockname()[1])
            sock = AssociationSocket(self.assoc, address=AddressInformation("127.0.0.1", 0))
            self.assoc.acceptor.address_info = self.addr
            self.assoc.requestor.address_info = AddressInformation("127.0.0.1", 0)
        else:
            a, b = socket.socketpair()
            self.peer = b
            self.addr = None
            self.assoc.requestor.address_info = AddressInformation("127.0.0.1", 11112)
            self.assoc.acceptor.address_info = AddressInformation("127.0.0.1", 11113)
        self.dul = self.assoc.dul
        _routes[id(self.dul)] = self.gate
        if not requestor:
            sock = AssociationSocket(self.assoc, client_socket=a)
        self.assoc.set_socket(sock)
        self.dul.artim_timer.timeout = 3600
        self.assoc.bind(evt.EVT_FSM_TRANSITION, self._on_tr)
        self.assoc.bind(evt.EVT_DATA_SENT, self._on_sent)
        self.assoc.bind(evt.EVT_CONN_CLOSE, self._on_close)
        self.last_invalid = None
        old_hook = threading.excepthook

        def hook(args, me=self, old=old_hook):
            if args.thread is me.dul:
                me.errors.append(args.exc_type.__name__ + ": " + str(args.exc_value))
            else:
                old(args)

        self._old_hook = old_hook
        threading.excepthook = hook
        self.popped = None
        self.dul.start()
        self.gate.wait_parked(self.dul)

    # ---- recorders -------------------------------------------------------
    def _on_tr(self, e):
        self.transitions.append((int(e.fsm_event[3:]), int(e.current_state[3:]), int(e.next_state[3:])))

    def _on_sent(self, e):
        self.data_sent += 1

    def _on_close(self, e):
        self.closes += 1

    # ---- steps -----------------------------------------------------------
    def step(self, st):
        g = self.gate
        if st == "a":
            if self.dul.is_alive() and g.at == "iter":
                g.release_and_wait(self.dul)
                self.popped = g.payload if g.at == "dispatch" else None
        elif st == "b":
            if self.dul.is_alive() and g.at == "dispatch":
                self.popped = None
                g.release_and_wait(self.dul)
        elif st == "invalid":
            self._feed(b"\x99\x00\x00\x00\x00\x00")
        elif st == "eof":
            if self.peer is not None:
                try:
                    self.peer.shutdown(socket.SHUT_WR)
                except OSError:
                    pass
                self._wait_readable()
        elif st == "break":
            raw = getattr(self.dul.socket, "socket", None)
            if raw is not None:
                try:
                    raw.shutdown(socket.SHUT_WR)
                except OSError:
                    pass
        elif st == "artimFire":
            t = self.dul.artim_timer
            if t._start_time is not None and t._end_time is None and t.timeout is not None:
                t._start_time -= t.timeout + 10
        elif st == "connectWillFail":
            if self.listener is not None:
                self.listener.close()
                self.listener = None
        elif isinstance(st, list) and st[0] == "pdu":
            self._feed(wire_bytes(st[1], bool(st[2])))
        elif isinstance(st, list) and st[0] == "local":
            self.dul.send_pdu(self._prim(st[1]))
        else:
            raise ValueError(st)
        self._maybe_accept()

    def _prim(self, k):
        from pynetdicom.pdu_primitives import A_ABORT, A_P_ABORT, A_RELEASE, P_DATA

        if k == "assocRq":
            return _assoc_prim(None, self.addr)
        if k == "accept":
            return _assoc_prim(0)
        if k == "reject":
            return _assoc_prim(1)
        if k == "pdata":
            p = P_DATA()
            p.presentation_data_value_list = [[1, b"\x03\x00\x00"]]
            return p
        if k == "releaseRq":
            return A_RELEASE()
        if k == "releaseRp":
            r = A_RELEASE()
            r.result = "affirmative"
            return r
        if k == "abort":
            a = A_ABORT()
            a.abort_source = 0
            return a
        if k == "pabort":
            a = A_P_ABORT()
            a.provider_reason = 1
            return a
        raise ValueError(k)

    def _maybe_accept(self):
        if self.listener is not None and self.peer is None:
            r, _, _ = select.select([self.listener], [], [], 0)
            if r:
                self.peer, _ = self.listener.accept()

    def _pending(self):
        import array
        import fcntl
        import termios

        raw = getattr(self.dul.socket, "socket", None)
        if raw is None:
            return None
        buf = array.array("i", [0])
        try:
            fcntl.ioctl(raw.fileno(), termios.FIONREAD, buf)
        except (OSError, ValueError):
            return None
        return buf[0]

    def _feed(self, data):
        if self.peer is None:
            return False
        before = self._pending()
        try:
            self.peer.sendall(data)
        except OSError:
            return False
        # loopback TCP delivery is asynchronous: wait until the bytes are readable on the DUL side
        if before is not None:
            deadline = time.monotonic() + 1.0
            while time.monotonic() < deadline:
                now = self._pending()
                if now is None or now >= before + len(data):
                    break
                time.sleep(0.0002)
        self._wait_readable()
        return True

    def _wait_readable(self):
        raw = getattr(self.dul.socket, "socket", None)
        if raw is None:
            return
        try:
            select.select([raw], [], [], 1.0)
        except (OSError, ValueError):
            pass

    def peer_can_feed(self):
        return self.peer is not None

    # ---- observation -------------------------------------------------------
    def _prim_kind(self, p):
        n = type(p).__name__
        if n == "T_CONNECT":
            return "connectOk" if p._result == "Evt2" else "connectFail"
        if n == "A_ASSOCIATE":
            return "assocRq" if p.result is None else ("accept" if p.result == 0 else "reject")
        if n == "A_RELEASE":
            return "releaseRq" if p.result is None else "releaseRp"
        return {"P_DATA": "pdata", "A_ABORT": "abort", "A_P_ABORT": "pabort"}.get(n, n)

    def obs(self):
        d = self.dul
        evq = [int(e[3:]) for e in list(d.event_queue.queue)]
        if self.gate.at == "dispatch" and self.popped is not None:
            evq = [int(self.popped[3:])] + evq
        dead = (not d.is_alive()) and bool(self.errors)
        if self.errors and "InvalidEventError" in self.errors[-1]:
            import re

            m = re.search(r"Invalid event 'Evt(\d+)' for the current state 'Sta(\d+)'", self.errors[-1])
            last = [int(m.group(1)), int(m.group(2)), False, int(m.group(2))]
        elif self.transitions:
            e, c, n = self.transitions[-1]
            last = [e, c, True, n]
            if dead:
                last = None  # an action raised: the model records (evt, state, action, state)
        else:
            last = "none"
        sock = d.socket
        return [
            int(d.state_machine.current_state[3:]),
            evq,
            [self._prim_kind(p) for p in list(d.to_provider_queue.queue)],
            bool(getattr(sock, "_is_connected", False)),
            bool(d.artim_timer.expired),
            bool(d._kill_thread),
            dead,
            self.data_sent,
            d.to_user_queue.qsize(),
            d._recv_pdu.qsize(),
            self.closes,
            last,
            bool(d.artim_timer._start_time is not None and d.artim_timer._end_time is None),  # ARTIM running
        ]

    def close(self):
        from pynetdicom import _verif

        _routes.pop(id(self.dul), None)
        # let the thread run free and finish
        self.dul._kill_thread = True
        with self.gate.cv:
            self.gate.grant = True
            self.gate.cv.notify_all()
        for _ in range(200):
            if not self.dul.is_alive():
                break
            with self.gate.cv:
                self.gate.grant = True
                self.gate.cv.notify_all()
            time.sleep(0.005)
        threading.excepthook = self._old_hook
        for s in (self.peer, self.listener, getattr(self.dul.socket, "socket", None)):
            try:
                if s is not None:
                    s.close()
            except Exception:
                pass
        if not _routes:
            _verif.install(None)
