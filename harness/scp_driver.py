"""Drive the real pynetdicom service-class SCPs in-process, without sockets.

Shared by C20, C21 and C22.  A *behaviour* (the same S-expression that is sent
to the Lean driver, see lean/PynetVerif/Driver/Scp.lean) is turned into a real
Python handler (generator function or plain function), bound through a stub
association so that the real `evt.trigger`, `ServiceClass.SCP`, `attempt`,
`_wrap_handler`, `validate_status` run unmodified.  The stub association
records every `dimse.send_msg(rsp, cx_id)` as a canonical snapshot.

Behaviour grammar (Python lists = S-expressions):

  handler  := ["gen", item...] | ["fr", te, ev] | ["fnone", ev] | ["fjunk", ev] | ["fv", value, ev]
  item     := ["y", value, ev] | ["r", te, ev] | ["ret", ev]
  value    := ["p", status, ds, outcome] | ["s", status] | ["dest", k] | "junk"
  status   := ["i", n] | ["in", n] (= -n) | ["d", [kw, v]...] | "bad"
  ds       := None | ["ds", uid|None, fl, aff|None, other, enc] | "jt" | "jf"
  outcome  := su | wa | wa2 | wa3 | fa | fa2 | fa3 | ex | ex2 | ex3 | ex4 | ca
  ev       := bit 0 handler aborts the association, bit 1 peer A-ABORT pending,
              bit 2 peer A-RELEASE-RQ pending   (applied while the handler runs)
  te       := True: the exception raised is a TypeError, False: a ValueError
"""
from __future__ import annotations

import copy
from io import BytesIO

from pydicom.dataset import Dataset
from pydicom.tag import Tag
from pydicom.uid import ImplicitVRLittleEndian

KW = [
    "status", "msgIdResp", "nRem", "nFail", "nWarn", "nComp",
    "errorComment", "offendingElement", "errorID", "affClass", "affInst", "other",
]
KW_NAME = {
    "status": "Status",
    "msgIdResp": "MessageIDBeingRespondedTo",
    "nRem": "NumberOfRemainingSuboperations",
    "nFail": "NumberOfFailedSuboperations",
    "nWarn": "NumberOfWarningSuboperations",
    "nComp": "NumberOfCompletedSuboperations",
    "errorComment": "ErrorComment",
    "offendingElement": "OffendingElement",
    "errorID": "ErrorID",
    "affClass": "AffectedSOPClassUID",
    "affInst": "AffectedSOPInstanceUID",
    "other": "PatientName",
}
PRIMS = ["echo", "store", "find", "get", "move", "nAction", "nCreate", "nDelete", "nEventReport", "nGet", "nSet"]

MARKER_FL = ["9.9.9"]  # the handler's own FailedSOPInstanceUIDList
REQ_CLASS = "1.2.840.10008.5.1.4.1.2.1.1"
REQ_INST = "1.2.4.77777"
OUTCOMES = ["su", "wa", "wa2", "wa3", "fa", "fa2", "fa3", "ex", "ex2", "ex3", "ex4", "ex5", "ca"]
OUTCOME_CLASS = {
    "su": "su", "wa": "wa", "wa2": "wa", "wa3": "wa", "fa": "fa", "fa2": "fa", "fa3": "fa",
    "ex": "ex", "ex2": "ex", "ex3": "ex", "ex4": "ex", "ex5": "ex", "ca": "ca",
}


def prim_class(prim):
    from pynetdicom import dimse_primitives as dp

    return {
        "echo": dp.C_ECHO, "store": dp.C_STORE, "find": dp.C_FIND, "get": dp.C_GET, "move": dp.C_MOVE,
        "nAction": dp.N_ACTION, "nCreate": dp.N_CREATE, "nDelete": dp.N_DELETE,
        "nEventReport": dp.N_EVENT_REPORT, "nGet": dp.N_GET, "nSet": dp.N_SET,
    }[prim]


# --------------------------------------------------------------------------
# behaviour -> Python values
# --------------------------------------------------------------------------
def py_status(s):
    if s == "bad":
        return "bad-status"
    if s[0] == "i":
        return s[1]
    if s[0] == "in":
        return -s[1]
    assert s[0] == "d"
    ds = Dataset()
    for kw, v in s[1:]:
        if kw in ("status", "msgIdResp", "nRem", "nFail", "nWarn", "nComp", "errorID"):
            setattr(ds, KW_NAME[kw], v)
        elif kw == "errorComment":
            ds.ErrorComment = f"c{v}"
        elif kw == "offendingElement":
            # (0000,0901) is AT with VM 1-n: odd values name two offending elements
            ds.OffendingElement = [Tag(0x0010, v), Tag(0x0020, v)] if v % 2 else Tag(0x0010, v)
        elif kw == "affClass":
            ds.AffectedSOPClassUID = f"1.2.3.{v}"
        elif kw == "affInst":
            ds.AffectedSOPInstanceUID = f"1.2.4.{v}"
        elif kw == "other":
            ds.PatientName = f"n{v}"
        else:
            raise ValueError(kw)
    return ds


def py_ds(d):
    if d is None:
        return None
    if d == "jt":
        return "abc"
    if d == "jf":
        return 0
    assert d[0] == "ds"
    _, uid, fl, aff, other, enc = d
    ds = Dataset()
    if uid is not None:
        ds.SOPInstanceUID = f"1.2.5.{uid}"
    if fl:
        ds.FailedSOPInstanceUIDList = list(MARKER_FL)
    if aff is not None:
        ds.AffectedSOPInstanceUID = f"1.2.4.{aff}"
    if other:
        ds.PatientName = "x"
    if not enc:
        # Rows with a value pydicom's writer cannot pack: dsutils.encode() returns None whatever the writer raises
        # (a str gives AttributeError/TypeError, an out-of-range int a struct.error re-raised as OSError/ValueError)
        bad = ["abc", 70000, -1][((uid or 0) + (aff or 0) + int(bool(fl)) + int(bool(other))) % 3]
        ds.add_new(0x00280010, "US", bad)
    return ds


class Env:
    """Mutable world shared by the stub association and the generated handler."""

    def __init__(self):
        self.est = True
        self.peer_abort = False
        self.peer_release = False
        self.sent = []  # snapshots
        self.subops = []  # (uid|None, outcome) in call order
        self.outcome_of = {}  # id(dataset) -> outcome
        self.keep = []  # keep datasets alive so ids stay unique
        self.supplied = []  # datasets supplied by the handler (for the fidelity oracle)
        self.pulled = 0  # number of generator items consumed
        self.releases = 0
        self.assoc_calls = []

    def apply(self, ev):
        if ev & 1:
            self.est = False
        if ev & 2:
            self.peer_abort = True
        if ev & 4:
            self.peer_release = True


DEST = {
    "ok": ("host-ok", 11112, {}),
    "unk": (None, None, {}),
    "ref": ("host-refuses", 11112, {}),
    "bad": ("host-raises", 11112, {}),
}


def py_value(v, env):
    if v == "junk":
        return None
    if v[0] == "p":
        ds = py_ds(v[2])
        if isinstance(ds, Dataset):
            env.outcome_of[id(ds)] = v[3]
            env.keep.append(ds)
            env.supplied.append(copy.deepcopy(ds))  # the SCP may modify the handler's object in place
        return (py_status(v[1]), ds)
    if v[0] == "s":
        return py_status(v[1])
    if v[0] == "dest":
        return DEST[v[1]]
    raise ValueError(v)


class _EmptyProblemList(Exception):
    """an exception whose instances are falsy (a collection of problems, raised while empty)"""

    def __len__(self):
        return 0


class _Unprintable(Exception):
    def __str__(self):
        raise RuntimeError("this exception cannot be printed")


_EXC_KINDS = [lambda: ValueError("scripted ValueError"), lambda: ValueError(), lambda: _EmptyProblemList(),
              lambda: KeyError(3), lambda: _Unprintable("x")]
_exc_n = [0]


def _scripted_exception():
    """what a handler may raise besides TypeError: with a message, without arguments, a falsy instance, a non-string
    argument, one that cannot be formatted - the reaction must not depend on it"""
    _exc_n[0] += 1
    return _EXC_KINDS[_exc_n[0] % len(_EXC_KINDS)]()


def make_handler(h, env):
    kind = h[0]
    if kind == "gen":
        items = h[1:]

        def handler(event):
            for it in items:
                env.pulled += 1
                if it[0] == "y":
                    env.apply(it[2])
                    yield py_value(it[1], env)
                elif it[0] == "r":
                    env.apply(it[2])
                    if it[1]:
                        raise TypeError("scripted TypeError")
                    raise _scripted_exception()
                elif it[0] == "ret":
                    env.apply(it[1])
                    return
                else:
                    raise AssertionError(it)
            env.pulled += 1

        return handler
    if kind == "fr":

        def handler(event):
            env.apply(h[2])
            if h[1]:
                raise TypeError("scripted TypeError")
            raise _scripted_exception()

        return handler
    if kind == "fnone":

        def handler(event):
            env.apply(h[1])
            return None

        return handler
    if kind == "fjunk":

        def handler(event):
            env.apply(h[1])
            return 5

        return handler
    if kind == "fv":

        def handler(event):
            env.apply(h[2])
            return py_value(h[1], env)

        return handler
    raise ValueError(h)


# --------------------------------------------------------------------------
# stub association
# --------------------------------------------------------------------------
def store_status(outcome):
    """What the scripted C-STORE sub-operation returns (or raises)."""
    ds = Dataset()
    code = {
        "su": 0x0000, "wa": 0xB000, "wa2": 0xB007, "wa3": 0x0107,
        "fa": 0xA700, "fa2": 0xC000, "fa3": 0x0110, "ca": 0xFE00,
        "ex3": 0xFF00,  # not in STORAGE_SERVICE_CLASS_STATUS -> KeyError
        "ex4": 0x0002,  # unknown code -> KeyError
    }.get(outcome)
    if outcome in ("ex", "ex5"):
        raise RuntimeError("scripted sub-operation failure")
    if outcome == "ex2":
        return ds  # send_c_store returns an empty Dataset on timeout / invalid response
    ds.Status = code
    return ds


class _Sock:
    def close(self):
        pass


class _Dul:
    socket = _Sock()


class StubStoreAssoc:
    def __init__(self, env, established):
        self.env = env
        self.is_established = established
        self.dul = _Dul()

    def send_c_store(self, dataset, msg_id=1, priority=2, originator_aet=None, originator_id=None):
        return self.env_store(dataset)

    def env_store(self, dataset):
        env = self.env
        outcome = env.outcome_of.get(id(dataset), "su")
        uid = None
        if "SOPInstanceUID" in dataset:
            uid = int(str(dataset.SOPInstanceUID).rsplit(".", 1)[1])
        env.subops.append((uid, outcome))
        if outcome == "ex5":
            # the sub-operation association is lost (destination aborted / connection dropped): the real
            # Association.send_c_store raises RuntimeError and is_established stays False from then on
            self.is_established = False
        if not self.is_established:
            raise RuntimeError("scripted: the association with the destination is no longer established")
        return store_status(outcome)

    def release(self):
        self.env.releases += 1


class StubAE:
    ae_title = "STUBAE"

    def __init__(self, env):
        self.env = env

    def associate(self, addr, port, **kwargs):
        self.env.assoc_calls.append((repr(addr), repr(port)))
        if addr == "host-ok" and port == 11112:
            return StubStoreAssoc(self.env, True)
        if addr == "host-refuses" and port == 11112:
            return StubStoreAssoc(self.env, False)
        raise TypeError("scripted: invalid destination")


class StubACSE:
    def __init__(self, env):
        self.env = env

    def is_aborted(self, abort_type="both"):
        return self.env.peer_abort

    def is_release_requested(self, consume=True):
        return self.env.peer_release


class StubDIMSE:
    def __init__(self, env, prim):
        self.env = env
        self.prim = prim
        self.cancel_req = {}

    def send_msg(self, primitive, context_id, max_pdu=None):
        self.env.sent.append(snapshot(primitive, context_id, self.prim))


class StubAssoc:
    def __init__(self, env, prim, handler, event):
        self.env = env
        self.dimse = StubDIMSE(env, prim)
        self.acse = StubACSE(env)
        self.ae = StubAE(env)
        self._handlers = {event: (handler, None)}
        self._store = StubStoreAssoc(env, True)
        self.abort = self._abort_blocking

    @property
    def is_established(self):
        return self.env.est

    def get_handlers(self, event):
        return self._handlers.get(event, [])

    def _abort_blocking(self):
        self.env.est = False

    def _abort_nonblocking(self):
        self.env.est = False

    def send_c_store(self, dataset, msg_id=1, priority=2, originator_aet=None, originator_id=None):
        return self._store.env_store(dataset)


# --------------------------------------------------------------------------
# snapshots
# --------------------------------------------------------------------------
DATASET_ATTR = {
    "echo": None, "store": "DataSet", "find": "Identifier", "get": "Identifier", "move": "Identifier",
    "nAction": "ActionReply", "nCreate": "AttributeList", "nDelete": None,
    "nEventReport": "EventReply", "nGet": "AttributeList", "nSet": "AttributeList",
}


def canon_fl(lst):
    """[''] and [] have the same encoding (a zero-length value)."""
    lst = list(lst)
    if lst == ["e"]:
        return []
    return lst


def _ident(primitive, prim):
    attr = DATASET_ATTR[prim]
    if attr is None:
        return "none", None
    stream = getattr(primitive, attr, None)
    if stream is None:
        return "none", None
    raw = stream.getvalue()
    if raw == b"":
        return "empty", None
    from pynetdicom.dsutils import decode

    ds = decode(BytesIO(raw), True, True)
    if prim in ("get", "move") and "FailedSOPInstanceUIDList" in ds:
        val = ds.FailedSOPInstanceUIDList
        if val is None or val == "":
            lst = []
        elif isinstance(val, str):
            lst = [val]
        else:
            lst = list(val)
        if [str(x) for x in lst] == MARKER_FL:
            return "handler", ds
        out = []
        for x in lst:
            x = str(x)
            out.append("e" if x == "" else int(x.rsplit(".", 1)[1]))
        return ["fl"] + canon_fl(out), ds
    return "data", ds


def _num(s, prefix):
    s = str(s)
    assert s.startswith(prefix), (s, prefix)
    return int(s[len(prefix):])


def _oe_num(oe):
    """the number an OffendingElement value stands for - if it is the complete list `py_status` built for it"""
    vals = [oe] if isinstance(oe, (int, tuple)) or not hasattr(oe, "__iter__") else list(oe)
    tags = [int(Tag(x)) for x in vals]
    v = tags[0] & 0xFFFF
    want = [0x00100000 | v] + ([0x00200000 | v] if v % 2 else [])
    return v if tags == want else -len(tags)


def snapshot(p, cx, prim):
    ident, ds = _ident(p, prim)
    ec = getattr(p, "ErrorComment", None)
    oe = getattr(p, "OffendingElement", None)
    eid = getattr(p, "ErrorID", None)
    ac = getattr(p, "AffectedSOPClassUID", None)
    ai = getattr(p, "AffectedSOPInstanceUID", None)
    return {
        "status": p.Status,
        "msgid": p.MessageIDBeingRespondedTo,
        "cx": cx,
        "ident": ident,
        "rem": getattr(p, "NumberOfRemainingSuboperations", None),
        "fail": getattr(p, "NumberOfFailedSuboperations", None),
        "warn": getattr(p, "NumberOfWarningSuboperations", None),
        "comp": getattr(p, "NumberOfCompletedSuboperations", None),
        "ec": None if ec is None else _num(ec, "c"),
        "oe": None if oe is None else _oe_num(oe),
        "eid": eid,
        "ac": None if ac is None or str(ac) == REQ_CLASS else _num(ac, "1.2.3."),
        "ai": None if ai is None or str(ai) == REQ_INST else _num(ai, "1.2.4."),
        "_ds": ds,
    }


def canon_snapshot(s):
    st = s["status"]
    st = ["neg", -st] if isinstance(st, int) and st < 0 else st
    return [st, s["msgid"], s["cx"], s["ident"], s["rem"], s["fail"], s["warn"], s["comp"],
            s["ec"], s["oe"], s["eid"], s["ac"], s["ai"]]


def canon_model_rsp(r):
    """Model reply -> same canonical form (sexp.loads gives 'none' symbols for None)."""
    out = []
    for i, x in enumerate(r):
        if x == "none" and i != 3:
            out.append(None)
        elif i == 3 and isinstance(x, list):
            out.append(["fl"] + canon_fl(x[1:]))
        else:
            out.append(x)
    return out


# --------------------------------------------------------------------------
# services
# --------------------------------------------------------------------------
def services():
    """name -> dict(cls, prim, uid, table (name of the *_STATUS dict), event, op (driver op), extra)"""
    from pynetdicom import evt, service_class as sc, service_class_n as scn, sop_class as sop

    S = {}

    def add(name, cls, prim, uid, event, op, **extra):
        S[name] = dict(name=name, cls=cls, prim=prim, uid=str(uid), event=event, op=op, **extra)

    add("echo", sc.VerificationServiceClass, "echo", sop.Verification, evt.EVT_C_ECHO, "scp.echo")
    add("store", sc.StorageServiceClass, "store", sop.CTImageStorage, evt.EVT_C_STORE, "scp.store")
    add("npstore", sc.NonPatientObjectStorageServiceClass, "store", sop.HangingProtocolStorage, evt.EVT_C_STORE, "scp.store")
    add("qrfind", sc.QueryRetrieveServiceClass, "find", sop.PatientRootQueryRetrieveInformationModelFind, evt.EVT_C_FIND, "scp.find")
    add("repofind", sc.QueryRetrieveServiceClass, "find", sop.RepositoryQuery, evt.EVT_C_FIND, "scp.find", repo=True)
    add("bwmfind", sc.BasicWorklistManagementServiceClass, "find", sop.ModalityWorklistInformationFind, evt.EVT_C_FIND, "scp.find")
    add("subfind", sc.SubstanceAdministrationQueryServiceClass, "find", sop.ProductCharacteristicsQuery, evt.EVT_C_FIND, "scp.find")
    add("upsfind", scn.UnifiedProcedureStepServiceClass, "find", sop.UnifiedProcedureStepPull, evt.EVT_C_FIND, "scp.find")
    add("rpfind", sc.RelevantPatientInformationQueryServiceClass, "find", sop.GeneralRelevantPatientInformationQuery, evt.EVT_C_FIND, "scp.rp")
    add("qrget", sc.QueryRetrieveServiceClass, "get", sop.PatientRootQueryRetrieveInformationModelGet, evt.EVT_C_GET, "scp.get")
    add("qrmove", sc.QueryRetrieveServiceClass, "move", sop.PatientRootQueryRetrieveInformationModelMove, evt.EVT_C_MOVE, "scp.move")
    nsvcs = [
        ("ael", scn.ApplicationEventLoggingServiceClass, sop.ProceduralEventLogging, ["nAction"]),
        ("dsm", scn.DisplaySystemManagementServiceClass, sop.DisplaySystem, ["nGet"]),
        ("ian", scn.InstanceAvailabilityNotificationServiceClass, sop.InstanceAvailabilityNotification, ["nCreate"]),
        ("mcm", scn.MediaCreationManagementServiceClass, sop.MediaCreationManagement, ["nCreate", "nGet", "nAction"]),
        ("print", scn.PrintManagementServiceClass, sop.BasicFilmSession,
         ["nCreate", "nEventReport", "nGet", "nSet", "nAction", "nDelete"]),
        ("mpps", scn.ProcedureStepServiceClass, sop.ModalityPerformedProcedureStep, ["nCreate", "nEventReport", "nGet", "nSet"]),
        ("rtmv", scn.RTMachineVerificationServiceClass, sop.RTConventionalMachineVerification,
         ["nCreate", "nEventReport", "nGet", "nSet", "nAction", "nDelete"]),
        ("scm", scn.StorageCommitmentServiceClass, sop.StorageCommitmentPushModel, ["nEventReport", "nAction"]),
        ("smg", scn.StorageManagementServiceClass, getattr(sop, "InventoryCreation", sop.StorageCommitmentPushModel), ["nEventReport", "nAction"]),
        ("ups", scn.UnifiedProcedureStepServiceClass, sop.UnifiedProcedureStepPush,
         ["nCreate", "nEventReport", "nGet", "nSet", "nAction"]),
    ]
    ev = {
        "nAction": evt.EVT_N_ACTION, "nCreate": evt.EVT_N_CREATE, "nDelete": evt.EVT_N_DELETE,
        "nEventReport": evt.EVT_N_EVENT_REPORT, "nGet": evt.EVT_N_GET, "nSet": evt.EVT_N_SET,
    }
    for nm, cls, uid, prims in nsvcs:
        for p in prims:
            add(f"{nm}.{p}", cls, p, uid, ev[p], "scp.n")
    return S


_TABLE_NAMES = None


def table_name(statuses):
    """The name of the `*_STATUS` dict of pynetdicom.status that `statuses` *is*."""
    global _TABLE_NAMES
    from pynetdicom import status as st

    if _TABLE_NAMES is None:
        _TABLE_NAMES = [(k, v) for k, v in sorted(vars(st).items()) if k.endswith("_STATUS") and isinstance(v, dict)]
    for k, v in _TABLE_NAMES:
        if v is statuses:
            return k
    for k, v in _TABLE_NAMES:
        if v == statuses:
            return k
    raise KeyError("service uses a status table that is not a *_STATUS dict of pynetdicom.status")


def make_request(svc, msg_id, req_has_inst=True):
    prim = svc["prim"]
    req = prim_class(prim)()
    req.MessageID = msg_id
    ident = Dataset()
    ident.PatientID = "*"
    ident.QueryRetrieveLevel = "PATIENT"
    from pynetdicom.dsutils import encode

    raw = BytesIO(encode(ident, True, True))
    if prim in ("echo",):
        req.AffectedSOPClassUID = REQ_CLASS
    elif prim == "store":
        req.AffectedSOPClassUID = REQ_CLASS
        req.AffectedSOPInstanceUID = REQ_INST
        req.Priority = 2
        req.DataSet = raw
    elif prim in ("find", "get", "move"):
        req.AffectedSOPClassUID = REQ_CLASS
        req.Priority = 2
        req.Identifier = raw
        if prim == "move":
            req.MoveDestination = "DESTAE"
    elif prim in ("nAction", "nDelete", "nGet", "nSet"):
        req.RequestedSOPClassUID = REQ_CLASS
        req.RequestedSOPInstanceUID = REQ_INST
        if prim == "nAction":
            req.ActionTypeID = 1
        if prim == "nSet":
            req.ModificationList = raw
    elif prim == "nCreate":
        req.AffectedSOPClassUID = REQ_CLASS
        if req_has_inst:
            req.AffectedSOPInstanceUID = REQ_INST
    elif prim == "nEventReport":
        req.AffectedSOPClassUID = REQ_CLASS
        req.AffectedSOPInstanceUID = REQ_INST
        req.EventTypeID = 1
    return req


def run_scp(svc, handler, msg_id=7, cx_id=3, req_has_inst=True):
    """Run the real SCP.  Returns dict(rsps=[canonical], subops, crashed, table, env)."""
    from pynetdicom.presentation import build_context

    env = Env()
    handler = normalise_lost(handler, svc["op"] == "scp.move")
    h = make_handler(handler, env)
    assoc = StubAssoc(env, svc["prim"], h, svc["event"])
    service = svc["cls"](assoc)
    cx = build_context(svc["uid"], ImplicitVRLittleEndian)
    cx.context_id = cx_id
    cx._as_scp = True
    cx._as_scu = True
    req = make_request(svc, msg_id, req_has_inst)
    crashed = False
    exc = None
    # logging switches must not change what is sent: they are set from the case (deterministically) for the run
    from pynetdicom import _config

    saved = (_config.LOG_RESPONSE_IDENTIFIERS, _config.LOG_REQUEST_IDENTIFIERS, _config.LOG_HANDLER_LEVEL)
    k = (len(repr(handler)) + msg_id + cx_id) % 4
    _config.LOG_RESPONSE_IDENTIFIERS = k in (0, 1)
    _config.LOG_REQUEST_IDENTIFIERS = k in (0, 2)
    _config.LOG_HANDLER_LEVEL = "standard" if k != 3 else "none"
    try:
        service.SCP(req, cx)
    except Exception as e:  # Association._serve_request would log and abort
        crashed = True
        exc = e
    finally:
        _config.LOG_RESPONSE_IDENTIFIERS, _config.LOG_REQUEST_IDENTIFIERS, _config.LOG_HANDLER_LEVEL = saved
    return {
        "rsps": [canon_snapshot(s) for s in env.sent],
        "raw": env.sent,
        "subops": [[u, OUTCOME_CLASS[o]] for u, o in env.subops],
        "crashed": crashed,
        "exc": exc,
        "table": table_name(service.statuses),
        "env": env,
    }


def normalise_lost(handler, move):
    """`ex5` = the sub-operation association is lost.  C-MOVE: every later sub-operation fails the same way (the
    stub, like the real Association, stays not-established); C-GET stores over the request's own association, where
    a loss is the whole association's abort (an association event), so `ex5` is just an exception there."""
    if not (isinstance(handler, list) and handler and handler[0] == "gen"):
        return handler
    lost = False
    out = [handler[0]]
    for it in handler[1:]:
        if isinstance(it, list) and len(it) >= 2 and isinstance(it[1], list) and it[1] and it[1][0] == "p" and len(it[1]) == 4:
            o = it[1][3]
            if not move:
                o = "ex" if o == "ex5" else o
            elif lost:
                o = "ex5"
            elif o == "ex5":
                lost = True
            it = [it[0], [it[1][0], it[1][1], it[1][2], o]] + list(it[2:])
        out.append(it)
    return out


def model_request(svc, table, handler, msg_id=7, cx_id=3, req_has_inst=True):
    op = svc["op"]
    handler = normalise_lost(handler, op == "scp.move")
    if op == "scp.n":
        return [op, svc["prim"], table, cx_id, msg_id, req_has_inst, handler]
    if op in ("scp.store", "scp.echo", "scp.find", "scp.rp", "scp.get", "scp.move"):
        return [op, table, cx_id, msg_id, handler]
    raise ValueError(op)


def canon_model(reply):
    """(rsps subops crashed) from the Lean driver -> python canonical."""
    assert isinstance(reply, list) and len(reply) == 3, reply
    rsps, subops, crashed = reply
    out_sub = []
    for s in subops:
        if s == "inv":
            continue
        out_sub.append([None if s[1] == "none" else s[1], s[2]])
    return {
        "rsps": [canon_model_rsp(r) for r in rsps],
        "subops": out_sub,
        "inv_subops": [i for i, s in enumerate(subops) if s == "inv"],
        "all_subops": subops,
        "crashed": crashed is True or crashed == "T",
    }


# --------------------------------------------------------------------------
# input-side classification used by the property oracles (independent of the Lean model)
# --------------------------------------------------------------------------
def status_code(s):
    """the Status `validate_status` leaves in the response for status object `s`"""
    if s == "bad":
        return 0xC002
    if s[0] == "i":
        return s[1]
    if s[0] == "in":
        return -s[1]
    code = None
    for kw, v in s[1:]:
        if kw == "status":
            code = v
    return 0xC001 if code is None else code


def table_cat(table, code):
    """category the `*_STATUS` dict named `table` gives `code`, or None"""
    from pynetdicom import status as st

    entry = getattr(st, table).get(code)
    return None if entry is None else entry[0]


def ds_truthy(d):
    if d is None or d == "jf":
        return False
    if d == "jt":
        return True
    _, uid, fl, aff, other, enc = d
    return uid is not None or fl or aff is not None or other or not enc


def as_pair(v):
    """(status, ds) that `a, b = value` yields, or None when the unpacking raises"""
    if v == "junk":
        return None
    if v[0] == "p":
        return v[1], v[2]
    if v[0] == "s" and v[1] != "bad" and v[1][0] == "d" and len(v[1]) == 3:
        return "bad", "jt"  # a 2-element Dataset unpacks into two DataElements
    return None


def status_values(handler):
    """every status object occurring in a behaviour"""
    vals = []
    if handler[0] == "gen":
        vals = [it[1] for it in handler[1:] if it[0] == "y"]
    elif handler[0] == "fv":
        vals = [handler[1]]
    out = []
    for v in vals:
        if v != "junk" and v[0] in ("p", "s"):
            out.append(v[1])
    return out


def has_msgid_elem(handler):
    return any(s != "bad" and s[0] == "d" and any(e[0] == "msgIdResp" for e in s[1:]) for s in status_values(handler))


# --------------------------------------------------------------------------
# behaviour generators (seeded only from the rng handed in)
# --------------------------------------------------------------------------
_CAT = {"Success": "su", "Warning": "wa", "Failure": "fa", "Cancel": "ca", "Pending": "pe"}


def code_pools(svc):
    """category -> codes of the status table the service class uses (read from the real class)."""
    from pynetdicom import status as st

    cls = svc["cls"]
    statuses = cls.statuses if "statuses" in vars(cls) or hasattr(cls, "statuses") else st.GENERAL_STATUS
    if svc["op"] == "scp.find" and svc["name"] in ("qrfind", "repofind"):
        statuses = st.QR_FIND_SERVICE_CLASS_STATUS
    if svc["op"] == "scp.get":
        statuses = st.QR_GET_SERVICE_CLASS_STATUS
    if svc["op"] == "scp.move":
        statuses = st.QR_MOVE_SERVICE_CLASS_STATUS
    pools = {"su": [], "wa": [], "fa": [], "ca": [], "pe": []}
    for code, entry in statuses.items():
        pools[_CAT[entry[0]]].append(code)
    for v in pools.values():
        v.sort()
    return pools


UNKNOWN_CODES = [0x0002, 0x0123, 0xD000, 0xFFF0, 0xFF02]


class BGen:
    def __init__(self, rng, svc):
        self.rng = rng
        self.svc = svc
        self.pools = code_pools(svc)
        self.uid = 0

    # -- atoms
    def ev(self, p=0.04):
        r = self.rng
        if r.random() >= p:
            return 0
        return r.choice([1, 2, 4, 1, 2, 4, 3, 5, 6, 7])

    def code(self, cat):
        r = self.rng
        pool = self.pools.get(cat) or []
        if cat == "pe":
            if r.random() < 0.9 or not pool:
                return 0xFF00
            return r.choice(pool + [0xFF01])
        if cat == "unk":
            return r.choice(UNKNOWN_CODES + [0xFF01] if 0xFF01 not in self.pools["pe"] else UNKNOWN_CODES)
        if not pool:
            return 0x0000
        if cat == "fa" and r.random() < 0.5:
            pref = [c for c in pool if c in (0xA700, 0xA701, 0xA702, 0xA900, 0xC000, 0xC001, 0x0110, 0x0122)]
            if pref:
                return r.choice(pref)
        if cat == "wa" and r.random() < 0.5:
            pref = [c for c in pool if c in (0xB000, 0xB001, 0x0107, 0x0116, 0x0001)]
            if pref:
                return r.choice(pref)
        return r.choice(pool)

    def status_of(self, cat, dataset_prob=0.15):
        """a status object of category cat in {pe, su, wa, fa, ca, unk, oor, nostatus, bad}"""
        r = self.rng
        if cat == "bad":
            return "bad"
        if cat == "nostatus":
            elems = self.extra_elems(allow_status=False)
            return ["d"] + elems
        if cat == "oor":
            return r.choice([["i", 65536], ["i", 70000], ["in", 1], ["in", 255], ["i", 2**31]])
        code = self.code(cat)
        if r.random() < dataset_prob:
            elems = [e for e in self.extra_elems() if e[0] != "status"] + [["status", code]]
            elems.sort(key=lambda e: _TAG_ORDER[e[0]])
            return ["d"] + elems
        return ["i", code]

    def extra_elems(self, allow_status=True):
        r = self.rng
        kws = [k for k in KW if k != "status"]
        n = r.choice([0, 0, 1, 1, 2, 3])
        chosen = r.sample(kws, n)
        out = []
        for k in chosen:
            if k == "msgIdResp":
                v = r.choice([0, 1, 8, 65535, 1000])
            elif k in ("nRem", "nFail", "nWarn", "nComp"):
                v = r.choice([0, 1, 5, 99])
            else:
                v = r.randrange(1, 200)
            out.append([k, v])
        out.sort(key=lambda e: _TAG_ORDER[e[0]])
        return out

    def ds(self, kind=None):
        r = self.rng
        kind = kind or r.choices(
            ["valid", "nouid", "none", "empty", "jt", "jf", "unenc", "fl", "aff", "affonly"],
            [50, 6, 8, 6, 6, 3, 4, 4, 3, 2],
        )[0]
        self.uid += 1
        u = self.uid
        if kind == "valid":
            return ["ds", u, False, None, r.random() < 0.7, True]
        if kind == "nouid":
            return ["ds", None, False, None, True, True]
        if kind == "none":
            return None
        if kind == "empty":
            return ["ds", None, False, None, False, True]
        if kind == "jt":
            return "jt"
        if kind == "jf":
            return "jf"
        if kind == "unenc":
            return ["ds", r.choice([u, None]), False, None, r.random() < 0.5, False]
        if kind == "fl":
            return ["ds", r.choice([u, None]), True, None, r.random() < 0.5, True]
        if kind == "aff":
            return ["ds", None, False, r.randrange(1, 50), True, True]
        if kind == "affonly":
            return ["ds", None, False, r.randrange(1, 50), False, True]
        raise ValueError(kind)

    def outcome(self, quantified_only=False):
        r = self.rng
        x = r.random()
        if x < 0.5:
            return "su"
        if x < 0.65:
            return r.choice(["wa", "wa2", "wa3"])
        if x < 0.82:
            return r.choice(["fa", "fa2", "fa3"])
        if x < 0.97 or quantified_only:
            return r.choice(["ex", "ex2", "ex3", "ex4", "ex5"])
        return "ca"

    # -- values / items
    def pair(self, cat, ds_kind=None, quantified_only=False):
        return ["p", self.status_of(cat), self.ds(ds_kind), self.outcome(quantified_only)]

    def odd_value(self):
        r = self.rng
        return r.choice([
            "junk", ["s", ["i", r.choice([0, 1, 3, 0xFF00])]], ["s", "bad"], ["dest", "ok"],
            ["s", ["d", ["status", 0]]], ["s", ["d", ["status", 0xFF00], ["errorComment", 3]]],
        ])

    def final_cat(self):
        return self.rng.choices(["su", "fa", "wa", "ca", "unk", "oor", "nostatus", "bad"], [30, 20, 15, 12, 8, 4, 5, 6])[0]

    def tail(self, items, p_end=0.25):
        """maybe end the generator explicitly"""
        r = self.rng
        x = r.random()
        if x < p_end * 0.4:
            items.append(["r", r.random() < 0.3, self.ev()])
        elif x < p_end * 0.6:
            items.append(["ret", self.ev(0.3)])
        return items

    def retrieve_handler(self, move, quantified_only=False):
        """(handler, kind) for C-GET / C-MOVE"""
        r = self.rng
        x = r.random()
        if x < 0.03:
            return r.choice([["fr", False, self.ev()], ["fr", True, 0], ["fnone", self.ev(0.3)], ["fjunk", 0],
                             ["fv", ["p", ["i", 0xFF00], self.ds(), "su"], 0]]), "not-a-generator"
        items = []
        kind = "counted"
        if move:
            y = r.random()
            if y < 0.88:
                items.append(["y", ["dest", "ok"], self.ev(0.02)])
            elif y < 0.96:
                items.append(["y", ["dest", r.choice(["unk", "ref", "bad"])], self.ev(0.05)])
                kind = "bad-destination"
            else:
                items.append(r.choice([["y", self.odd_value(), 0], ["y", self.pair("pe"), 0], ["r", False, 0], ["ret", 0]]))
                kind = "bad-destination"
        y = r.random()
        if y < 0.90:
            n = r.choices([1, 2, 3, 4, 5, 8, 0], [20, 25, 20, 12, 8, 3, 4])[0]
            items.append(["y", ["s", ["i", n]], self.ev(0.02)])
        elif y < 0.95:
            n = 0
            items.append(["y", ["s", r.choice([["i", 65535], ["i", 65536], ["in", 1], ["i", 100000]])], 0])
            kind = "count-boundary"
        else:
            n = 0
            items.append(r.choice([["y", "junk", 0], ["y", ["s", "bad"], 0], ["y", self.pair("pe"), 0],
                                   ["r", False, 0], ["ret", 0], ["y", ["dest", "ok"], 0]]))
            kind = "bad-count" if kind == "counted" else kind
        if n == 65535 or (kind == "count-boundary" and items[-1][1][1] == ["i", 65535]):
            n = 3
        # the (status, dataset) results: mostly n Pending with valid datasets, sometimes fewer / more
        m = n
        z = r.random()
        if z < 0.15:
            m = max(0, n - r.randrange(1, 3))
        elif z < 0.30:
            m = n + r.randrange(1, 3)
        explicit_final = r.random() < 0.35
        for j in range(m):
            w = r.random()
            if w < 0.80:
                items.append(["y", self.pair("pe", r.choices(["valid", None], [4, 1])[0], quantified_only), self.ev(0.02)])
            elif w < 0.86:
                items.append(["y", self.pair("pe", r.choice(["jt", "none", "empty", "jf", "nouid"]), quantified_only), self.ev(0.02)])
            elif w < 0.93:
                items.append(["y", self.pair(self.final_cat(), None, quantified_only), self.ev(0.02)])
                kind = "early-final"
            elif w < 0.97:
                items.append(["y", self.odd_value(), 0])
                kind = "odd-yield"
            else:
                items.append(["r", r.random() < 0.3, self.ev()])
                kind = "raise-mid"
        if explicit_final:
            items.append(["y", self.pair(self.final_cat(), r.choice(["none", "none", "fl", "valid", None]), quantified_only), self.ev(0.02)])
        self.tail(items)
        if any(isinstance(it[-1], int) and it[-1] for it in items):
            kind = kind + "+assoc-event"
        return ["gen"] + items, kind


    def find_handler(self):
        """(handler, kind) for the C-FIND services (`_c_find_scp` and the Relevant Patient SCP)"""
        r = self.rng
        x = r.random()
        if x < 0.05:
            return r.choice([["fr", False, self.ev()], ["fr", True, self.ev()], ["fnone", self.ev(0.3)],
                             ["fjunk", self.ev(0.2)]]), "not-a-generator"
        items = []
        kind = "matches"
        m = r.choices([0, 1, 2, 3, 4, 6], [10, 25, 25, 20, 12, 8])[0]
        for _ in range(m):
            w = r.random()
            if w < 0.72:
                items.append(["y", self.pair("pe", r.choices(["valid", "nouid", None], [5, 2, 1])[0]), self.ev(0.03)])
            elif w < 0.80:
                items.append(["y", self.pair("wa", r.choice(["none", "valid"])), self.ev(0.03)])
                kind = "warning-mid"
            elif w < 0.90:
                items.append(["y", self.pair(self.final_cat(), r.choice(["none", "none", "valid"])), self.ev(0.03)])
                kind = "early-final" if kind == "matches" else kind
            elif w < 0.95:
                items.append(["y", self.odd_value(), 0])
                kind = "odd-yield"
            else:
                items.append(["r", r.random() < 0.3, self.ev()])
                kind = "raise-mid"
        if r.random() < 0.45:
            items.append(["y", self.pair(self.final_cat(), r.choice(["none", "none", "valid"])), self.ev(0.03)])
        self.tail(items)
        if any(isinstance(it[-1], int) and it[-1] for it in items):
            kind = kind + "+assoc-event"
        return ["gen"] + items, kind

    def fn_handler(self, prim):
        """(handler, kind) for the single-response services"""
        r = self.rng
        x = r.random()
        if x < 0.08:
            return ["fr", r.random() < 0.3, self.ev()], "raises"
        if x < 0.12:
            return r.choice([["fnone", self.ev()], ["fjunk", self.ev()]]), "returns-none-or-int"
        cat = r.choices(["su", "wa", "fa", "ca", "pe", "unk", "oor", "nostatus", "bad"], [30, 12, 20, 5, 4, 8, 5, 8, 8])[0]
        st = self.status_of(cat, dataset_prob=0.35)
        if prim in ("echo", "store", "nDelete"):
            if r.random() < 0.06:
                return ["fv", r.choice([["p", st, self.ds(), "su"], "junk", ["dest", "ok"]]), self.ev()], "wrong-shape"
            return ["fv", ["s", st], self.ev()], "status:" + cat
        if r.random() < 0.07:
            return ["fv", r.choice(["junk", ["s", st], ["dest", "ok"], ["s", ["d", ["status", 0], ["errorComment", 1]]]]), self.ev()], "wrong-shape"
        dk = r.choices(["valid", "nouid", "none", "empty", "jt", "jf", "unenc", "aff", "affonly"], [35, 8, 15, 6, 6, 4, 8, 10, 8])[0]
        return ["fv", ["p", st, self.ds(dk), "su"], self.ev()], "status:" + cat


_TAG_ORDER = {
    "affClass": 0x0002, "msgIdResp": 0x0120, "status": 0x0900, "offendingElement": 0x0901,
    "errorComment": 0x0902, "errorID": 0x0903, "affInst": 0x1000, "nRem": 0x1020, "nComp": 0x1021,
    "nFail": 0x1022, "nWarn": 0x1023, "other": 0x100010,
}
