"""Registry of claimed properties -> MANIFEST.json (tools/mkmanifest.py)."""

# pid -> dict(category, text, note, technique, design_ref)
CLAIMED = {
    "C28": dict(
        category="proof",
        technique="Lean 4 theorems over tables regenerated from status.py (translator) + exhaustive differential run of code_to_category vs the Lean model",
        text="Kernel-checked: the extension of the real code_to_category on all 65536 codes (regenerated every run) equals the model table, is a partition into runs carrying one of six categories, and every entry of every *_STATUS table regenerated from the module lies in a run of the same category; SCU finality is a function of the category (with the documented 0xB001 exception). The check also runs all 65536 codes through the real function and the Lean driver and re-evaluates every table entry on the implementation.",
        note="Trusted: Lean kernel; translator reflection of pynetdicom.status (prints what it reads); SCP-side finality is covered behaviourally under C20.",
        design_ref="§5 C28",
    ),
}

NOT_APPLICABLE = {}
