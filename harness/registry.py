"""Registry of claimed properties -> MANIFEST.json (tools/mkmanifest.py)."""

# pid -> dict(category, text, note, technique, design_ref)
CLAIMED = {
    "C03": dict(
        category="proof",
        technique="Lean 4 induction over an adversarial read-size oracle (model of AssociationSocket.recv + _read_pdu_data framing) + differential run over real socketpairs with recorded read results",
        text="Kernel-checked for every PDU sequence, every truncated tail and every sequence of read sizes the kernel may return: the receive loop returns exactly the requested bytes, the reactor sees exactly the PDUs sent, in order, then 'closed' (C03_chunking_midclose), and for ANY oracle including timeouts every delivered PDU is completely framed and the frames account for a prefix of the stream (C03_frames_sound). The model is tied to the code by running the real AssociationSocket.recv/_read_pdu_data over socket.socketpair() with generated sender chunking, gaps, close offsets and per-read caps, feeding the recorded read results to the Lean driver and diffing the frame sequences; the property oracle is evaluated on the real side alone.",
        note="Trusted: Lean kernel; the proxy socket that caps/records reads; kernel/TCP behaviour enters only through the read-result sequence the theorem quantifies over. Gaps are below the socket timeout by construction (blocking reads do not observe them). PDU decoding after framing is C01/C02.",
        design_ref="§5 C03",
    ),
    "C04": dict(
        category="proof",
        technique="Lean 4 whole-table theorems (decide +kernel) over the transition table and the executed effect traces of all 988 do_action inputs, regenerated from fsm.py every run, against a hand transcription of PS3.8 Tables 9-6..9-10",
        text="Kernel-checked equality between (a) TRANSITION_TABLE as reflected from the code and PS3.8 Table 9-10, (b) the protocol effects and next state observed by executing the real StateMachine.do_action on every (event, state, role, data-variant) input with recording fakes and what Tables 9-6..9-9 prescribe (PDU kind with source/reason, indication, ARTIM start/stop/restart, transport close), (c) ACTIONS' declared next states. Exhaustive over the finite domain; any table edit or changed side effect breaks a theorem and the failing pair is reported by comparing the executed trace with the Lean spec through the driver.",
        note="Trusted: Lean kernel; my transcription of PS3.8 (Spec/Ps38Fsm.lean, choices PS3.8 leaves open are listed there); the recording fakes of translate/fsm.py (socket, ARTIM, queues, DIMSE provider). Real sockets/timers are not exercised here (C05/C06 do that).",
        design_ref="§5 C04",
    ),
    "C28": dict(
        category="proof",
        technique="Lean 4 theorems over tables regenerated from status.py (translator) + exhaustive differential run of code_to_category vs the Lean model",
        text="Kernel-checked: the extension of the real code_to_category on all 65536 codes (regenerated every run) equals the model table, is a partition into runs carrying one of six categories, and every entry of every *_STATUS table regenerated from the module lies in a run of the same category; SCU finality is a function of the category (with the documented 0xB001 exception). The check also runs all 65536 codes through the real function and the Lean driver and re-evaluates every table entry on the implementation.",
        note="Trusted: Lean kernel; translator reflection of pynetdicom.status (prints what it reads); SCP-side finality is covered behaviourally under C20.",
        design_ref="§5 C28",
    ),
}

NOT_APPLICABLE = {}
