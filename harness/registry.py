"""Registry of claimed properties -> MANIFEST.json (tools/mkmanifest.py)."""

# pid -> dict(category, text, note, technique, design_ref)
CLAIMED = {
    "C05": dict(
        category="proof",
        technique="Lean 4 model of the DUL reactor at micro-step granularity (actions taken from the C04-proved PS3.8 effects) with per-state theorems and kernel-checked negation witnesses; trace validation in lockstep: generated schedules interpreted step by step on the real reactor thread (hook points) and on the model, state compared after every step",
        text="partial. Proved (Lean, all states): the model's queue bookkeeping equals the executed code's (C05_bookkeeping_is_code); transport-originated events (PDUs, invalid PDU, connection closed) are defined in every state except Sta1/Sta4 and dispatching one never kills the thread (C05_transport_events_defined, C05_transport_event_safe); a dispatch can kill the thread only through a missing table entry or an action whose input is missing (C05_death_causes); every action that returns to Sta1 sets the kill flag and notifies connection-close exactly once (C05_sta1_closes). The full statement is false of the current code: three kernel-checked witness schedules (C05_neg_*) on which the reactor dies are replayed on the real reactor every run and are known findings (races between the provider and the association thread's stale view; ARTIM stop-after-expiry). Not yet proved: the inductive invariant that turns the per-state theorems into 'no reachable state dispatches a transport event in Sta1/Sta4' for all schedules. Tie: ~900 (quick) adaptively generated schedules of phase-A/phase-B reactor steps and environment steps (peer PDUs valid/invalid, EOF, send failure, ARTIM expiry, local primitives; sync-admissible, peer-only and racy modes; requestor and acceptor) run in lockstep on a real Association/DULServiceProvider thread over real sockets and on the Lean model with a 12-field state comparison after every step; oracle on the real side: in sync-admissible and peer-only schedules the reactor thread never dies, and Sta1 is re-entered only with kill set and one connection-close notification.",
        note="Not modelled: GIL hand-over points inside one reactor phase (the hooks serialise them), real time (ARTIM expiry is an environment step), the association layer that decides which primitives to issue (its admissible behaviour is approximated by the sync mode: primitives PS3.8 allows, issued at quiescent points). Trusted: Lean kernel, C04's spec, harness/lockstep.py.",
        design_ref="§5 C05",
    ),
    "C24": dict(
        category="proof",
        technique="Lean 4 induction over arbitrary peer message lists on an effect-trace model of the SCU wrappers (lock, reactor checkpoint, abort, yields) against a hand-written spec of the documented results + differential run of the real generators driven in-process vs the Lean driver",
        text="Kernel-checked for every peer message list: C-FIND yields each valid response up to and including the first final one exactly once and in order (Repository Query 0xB001 non-final), gives (Dataset(), None) and aborts exactly on timeout/invalid/unexpected, never yields with the AE lock held, restores the reactor checkpoint, consumes nothing after the stop. C-GET/C-MOVE: same, proved for every peer whose consumed messages contain no C-STORE response, no response of the other retrieve service and no C-STORE request without SOP class (partial; three _neg witnesses = known findings); lock freedom at every yield, stop rule and checkpoint-iff-nothing-raised for all peers. Single-response calls (C-ECHO, C-STORE, N-*): documented value + abort discipline for every peer whose first message is not a valid response of another message type (partial; two _neg witnesses = known findings). The real send_* generators are driven in-process with a scripted DIMSE provider (no sockets), the AE lock and checkpoint sampled at every next(), and compared with the Lean driver; every clause of the property is also evaluated on the real outputs.",
        note="partial: the reactor thread, real DIMSE provider/queues and sockets are not modelled; abort() is replaced by a recorder; identifiers abstracted to absent/empty/decodable/undecodable; message-id matching not modelled. Trusted: Lean kernel, harness/scu_rig.py, my reading of the docstrings (Spec/Scu.lean).",
        design_ref="§5 C24",
    ),
    "C03": dict(
        category="proof",
        technique="Lean 4 induction over an adversarial read-size oracle (model of AssociationSocket.recv + _read_pdu_data framing) + differential run over real socketpairs with recorded read results",
        text="Kernel-checked for every PDU sequence, every truncated tail and every sequence of read sizes the kernel may return: the receive loop returns exactly the requested bytes, the reactor sees exactly the PDUs sent, in order, then 'closed' (C03_chunking_midclose), and for ANY oracle including timeouts every delivered PDU is completely framed and the frames account for a prefix of the stream (C03_frames_sound). The model is tied to the code by running the real AssociationSocket.recv/_read_pdu_data over socket.socketpair() with generated sender chunking, gaps, close offsets and per-read caps, feeding the recorded read results to the Lean driver and diffing the frame sequences; the property oracle is evaluated on the real side alone.",
        note="Trusted: Lean kernel; the proxy socket that caps/records reads; kernel/TCP behaviour enters only through the read-result sequence the theorem quantifies over. Gaps are below the socket timeout by construction (blocking reads do not observe them). PDU decoding after framing is C01/C02.",
        design_ref="§5 C03",
    ),
    "C04": dict(
        category="proof",
        technique="Lean 4 whole-table theorems (decide +kernel) over the transition table and the executed effect traces of all 988 do_action inputs, regenerated from fsm.py every run, against a hand transcription of PS3.8 Tables 9-6..9-10",
        text="Kernel-checked equality between (a) TRANSITION_TABLE as reflected from the code and PS3.8 Table 9-10, (b) the protocol effects and next state observed by executing the real StateMachine.do_action on every (event, state, role, data-variant) input with recording fakes and what Tables 9-6..9-9 prescribe (PDU kind with source/reason, indication, ARTIM start/stop/restart, transport close), (c) ACTIONS' declared next states. Exhaustive over the finite domain; any table edit or changed side effect breaks a theorem and the failing pair is reported by comparing the executed trace with the Lean spec through the driver.",
        note="Trusted: Lean kernel; my transcription of PS3.8 (Spec/Ps38Fsm.lean, choices PS3.8 leaves open are listed there); the recording fakes of translate/fsm.py (socket, ARTIM, queues, DIMSE provider). Real sockets/timers are not exercised here (C05/C06 do that).",
        design_ref="§5 C04",
    ),
    "C28": dict(
        category="proof",
        technique="Lean 4 theorems over tables regenerated from status.py (translator) + exhaustive differential run of code_to_category vs the Lean model",
        text="Kernel-checked: the extension of the real code_to_category on all 65536 codes (regenerated every run) equals the model table, is a partition into runs carrying one of six categories, and every entry of every *_STATUS table regenerated from the module lies in a run of the same category; SCU finality is a function of the category (with the documented 0xB001 exception). The check also runs all 65536 codes through the real function and the Lean driver and re-evaluates every table entry on the implementation.",
        note="Trusted: Lean kernel; translator reflection of pynetdicom.status (prints what it reads); SCU finality is additionally exercised on the real send_c_find/get/move generators for every table code (harness/finality.py); SCP side under C20.",
        design_ref="§5 C28",
    ),
}

NOT_APPLICABLE = {}
