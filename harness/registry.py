"""Registry of claimed properties -> MANIFEST.json (tools/mkmanifest.py)."""

# pid -> dict(category, text, note, technique, design_ref)
CLAIMED = {
    "C24": dict(
        category="proof",
        technique="Lean 4 induction over arbitrary peer message lists on an effect-trace model of the SCU wrappers (lock, reactor checkpoint, abort, yields) against a hand-written spec of the documented results + differential run of the real generators driven in-process vs the Lean driver",
        text="Kernel-checked for every peer message list: C-FIND yields each valid response up to and including the first final one exactly once and in order (Repository Query 0xB001 non-final), gives (Dataset(), None) and aborts exactly on timeout/invalid/unexpected, never yields with the AE lock held, restores the reactor checkpoint, consumes nothing after the stop. C-GET/C-MOVE: same, proved for every peer whose consumed messages contain no C-STORE response, no response of the other retrieve service and no C-STORE request without SOP class (partial; three _neg witnesses = known findings); lock freedom at every yield, stop rule and checkpoint-iff-nothing-raised for all peers. Single-response calls (C-ECHO, C-STORE, N-*): documented value + abort discipline for every peer whose first message is not a valid response of another message type (partial; two _neg witnesses = known findings). The real send_* generators are driven in-process with a scripted DIMSE provider (no sockets), the AE lock and checkpoint sampled at every next(), and compared with the Lean driver; every clause of the property is also evaluated on the real outputs.",
        note="partial: the reactor thread, real DIMSE provider/queues and sockets are not modelled; abort() is replaced by a recorder; identifiers abstracted to absent/empty/decodable/undecodable; message-id matching not modelled. Trusted: Lean kernel, harness/scu_rig.py, my reading of the docstrings (Spec/Scu.lean).",
        design_ref="§5 C24",
    ),
    "C03": dict(
        category="proof",
        technique="Lean 4 induction over an adversarial read-size oracle (model of AssociationSocket.recv + _read_pdu_data framing) + differential run over real socketpairs with recorded read results",
        text="Kernel-checked for every PDU sequence, every truncated tail and every sequence of read sizes the kernel may return: the receive loop returns exactly the requested bytes, the reactor sees exactly the PDUs sent, in order, then 'closed' (C03_chunking_midclose), and for ANY oracle including timeouts every delivered PDU is completely framed and the frames account for a prefix of the stream (C03_frames_sound). The model is tied to the code by running the real AssociationSocket.recv/_read_pdu_data over socket.socketpair() with generated sender chunking, gaps, close offsets and per-read caps, feeding the recorded read results to the Lean driver and diffing the frame sequences; the property oracle is evaluated on the real side alone.",
        note="Trusted: Lean kernel; the proxy socket that caps/records reads; kernel/TCP behaviour enters only through the read-result sequence the theorem quantifies over. Gaps are below the socket timeout by construction (blocking reads do not observe them). PDU decoding after framing is C01/C02.",
        design_ref="§5 C03",
    ),
    "C04": dict(
        category="proof",
        technique="Lean 4 whole-table theorems (decide +kernel) over the transition table and the executed effect traces of all 988 do_action inputs, regenerated from fsm.py every run, against a hand transcription of PS3.8 Tables 9-6..9-10",
        text="Kernel-checked equality between (a) TRANSITION_TABLE as reflected from the code and PS3.8 Table 9-10, (b) the protocol effects and next state observed by executing the real StateMachine.do_action on every (event, state, role, data-variant) input with recording fakes and what Tables 9-6..9-9 prescribe (PDU kind with source/reason, indication, ARTIM start/stop/restart, transport close), (c) ACTIONS' declared next states. Exhaustive over the finite domain; any table edit or changed side effect breaks a theorem and the failing pair is reported by comparing the executed trace with the Lean spec through the driver.",
        note="Trusted: Lean kernel; my transcription of PS3.8 (Spec/Ps38Fsm.lean, choices PS3.8 leaves open are listed there); the recording fakes of translate/fsm.py (socket, ARTIM, queues, DIMSE provider). Real sockets/timers are not exercised here (C05/C06 do that).",
        design_ref="§5 C04",
    ),
    "C28": dict(
        category="proof",
        technique="Lean 4 theorems over tables regenerated from status.py (translator) + exhaustive differential run of code_to_category vs the Lean model",
        text="Kernel-checked: the extension of the real code_to_category on all 65536 codes (regenerated every run) equals the model table, is a partition into runs carrying one of six categories, and every entry of every *_STATUS table regenerated from the module lies in a run of the same category; SCU finality is a function of the category (with the documented 0xB001 exception). The check also runs all 65536 codes through the real function and the Lean driver and re-evaluates every table entry on the implementation.",
        note="Trusted: Lean kernel; translator reflection of pynetdicom.status (prints what it reads); SCU finality is additionally exercised on the real send_c_find/get/move generators for every table code (harness/finality.py); SCP side under C20.",
        design_ref="§5 C28",
    ),
}

NOT_APPLICABLE = {}
