"""S-expression reader/printer matching lean/PynetVerif/Model/SExp.lean.

Python values: int -> nat atom, bytes -> x<hex>, str -> symbol, list/tuple -> list,
bool -> T/F, None -> none.
"""


def dumps(v) -> str:
    if v is True:
        return "T"
    if v is False:
        return "F"
    if v is None:
        return "none"
    if isinstance(v, int):
        assert v >= 0, v
        return str(v)
    if isinstance(v, (bytes, bytearray)):
        return "x" + bytes(v).hex()
    if isinstance(v, str):
        assert v and not any(c in v for c in " ()\n\t"), repr(v)
        return v
    if isinstance(v, (list, tuple)):
        return "(" + " ".join(dumps(x) for x in v) + ")"
    raise TypeError(type(v))


def _atom(t: str):
    if t[0] == "x":
        try:
            return bytes.fromhex(t[1:])
        except ValueError:
            return t
    if t.isdigit():
        return int(t)
    return t


def loads(s: str):
    stack = [[]]
    tok = []

    def flush():
        if tok:
            stack[-1].append(_atom("".join(tok)))
            tok.clear()

    for c in s:
        if c == "(":
            flush()
            stack.append([])
        elif c == ")":
            flush()
            top = stack.pop()
            stack[-1].append(top)
        elif c in " \n\t\r":
            flush()
        else:
            tok.append(c)
    flush()
    assert len(stack) == 1 and len(stack[0]) == 1, s
    return stack[0][0]
