"""Shared adapters for C15 / C16: build real DIMSE primitives and messages, run the
real `encode_msg` / `decode_msg`, canonicalise, ask the Lean model, evaluate the
property oracles on the implementation's outputs.

A case is a JSON-able dict
  {"op":"msg", "cls":<DIMSEMessage subclass name>, "shape":"none|stream|file|raw", "n":<data-set length>,
   "seed":<int>, "off":<file offset / junk prefix length>, "past":<bool: offset past EOF>,
   "max":<peer maximum>, "cmdlen":<target command-set length or 0>, "cid":<context id>,
   "gseed":<regrouping seed>, "wire":<bool: regrouped primitives go through P_DATA_TF encode/decode>}
and is replayable from these numbers alone (data bytes come from random.Random(seed)).
"""
from __future__ import annotations

import os
import random
import re
import tempfile
from io import BytesIO

VAL = {
    "MessageID": 7,
    "MessageIDBeingRespondedTo": 7,
    "AffectedSOPClassUID": "1.2.840.10008.5.1.4.1.1.2",
    "AffectedSOPInstanceUID": "1.2.3.4",
    "RequestedSOPClassUID": "1.2.840.10008.5.1.4.1.1.2",
    "RequestedSOPInstanceUID": "1.2.3.4",
    "Priority": 2,
    "Status": 0,
    "MoveDestination": "DEST",
    "EventTypeID": 1,
    "ActionTypeID": 1,
    "MoveOriginatorApplicationEntityTitle": "ORIG",
    "MoveOriginatorMessageID": 3,
    "AttributeIdentifierList": [0x00100010],
    "NumberOfRemainingSuboperations": 1,
    "NumberOfCompletedSuboperations": 1,
    "NumberOfFailedSuboperations": 0,
    "NumberOfWarningSuboperations": 0,
}

MAXES = [0, 7, 8, 13, 64, 16382, 2**32 - 1]


def kinds():
    """[(message class name, primitive class, message class, dataset keyword | None)] for all 23 kinds."""
    from pynetdicom import dimse
    from pynetdicom.dimse_messages import _DATASET_KEYWORDS

    out = []
    for table in (dimse._RQ_TO_MESSAGE, dimse._RSP_TO_MESSAGE):
        for P, M in table.items():
            out.append((M.__name__, P, M, _DATASET_KEYWORDS.get(M.__name__)))
    return sorted(out, key=lambda t: t[0])


def data_bytes(n, seed):
    return random.Random(seed).randbytes(n) if n else b""


def stream_of(data, salt=0):
    """A data-set parameter as a caller may legally hand it over: a BytesIO holding `data`, with its position wherever
    the caller left it - freshly constructed (0), filled with write() (at the end), partly or completely read.  What the
    parameter MEANS is the stream's content (`getvalue()`), whatever the position."""
    s = BytesIO()
    s.write(data)
    how = (len(data) * 7 + salt) % 4
    if how == 0:
        s.seek(0)
    elif how == 1:
        pass  # built with write(): positioned at the end
    elif how == 2:
        s.seek(len(data) // 2)
    else:
        s.seek(0)
        s.read()
    return s


class Built:
    """A real message built from a real primitive for one case."""

    def __init__(self, case, tmpdir):
        from pynetdicom.dimse_messages import _COMMAND_SET_KEYWORDS
        from pynetdicom.dsutils import encode

        k = {name: (P, M, kw) for name, P, M, kw in kinds()}
        P, M, kw = k[case["cls"]]
        prim = P()
        for key in _COMMAND_SET_KEYWORDS[case["cls"].replace("_", "-")]:
            if key in VAL and hasattr(prim, key):
                setattr(prim, key, VAL[key])
        self.kw = kw
        self.data = data_bytes(case["n"], case["seed"])
        self.ds_param = None  # what the Lean model sees as the data-set parameter
        self.path_param = None
        self.path = None
        shape = case["shape"]
        if shape in ("stream", "raw") and kw:
            setattr(prim, kw, stream_of(self.data, case["seed"]))
            self.ds_param = self.data
        if shape in ("file", "raw"):
            junk = data_bytes(case["off"], case["seed"] + 1)
            fd, self.path = tempfile.mkstemp(dir=tmpdir, suffix=".bin")
            content = junk + (self.data if shape == "file" else data_bytes(case["n"] + 3, case["seed"] + 2))
            with os.fdopen(fd, "wb") as f:
                f.write(content)
            off = case["off"] + (len(content) + case.get("pastby", 5) if case.get("past") else 0)
            from pathlib import Path

            prim._dataset_path = (Path(self.path), off)  # a Path, as send_c_store hands it over
            self.path_param = [content, off]
            self.file_bytes = content[off:]
        self.prim = prim
        self.msg = M()
        self.msg.primitive_to_message(prim)
        # steer the command-set length: (0000,0902) ErrorComment costs 8 + value bytes
        if case.get("cmdlen"):
            base = len(encode(self.msg.command_set, True, True))
            extra = case["cmdlen"] - base - 8
            if extra >= 0 and "ErrorComment" not in self.msg.command_set:
                self.msg.command_set.ErrorComment = "E" * (extra - extra % 2)
                self.msg._set_command_group_length()
        self.cmd = encode(self.msg.command_set, True, True)
        self.flag = self.msg.command_set.CommandDataSetType
        # the data-set bytes the message denotes
        if self.msg.data_set is not None:
            self.expect_ds = self.msg.data_set.getvalue()
        elif self.msg._data_set_path is not None:
            self.expect_ds = self.file_bytes
        else:
            self.expect_ds = b""

    def close(self):
        if self.path:
            try:
                os.unlink(self.path)
            except OSError:
                pass


def real_encode(msg, cid, mx, observed=False):
    """(list of P_DATA yielded, exception class name | None)
    observed: between building the message and encoding it something has READ the message's data set - what a handler
    bound to EVT_DIMSE_SENT may do (`DIMSEServiceProvider.send_msg` triggers that notification exactly there)"""
    out, err = [], None
    if observed and getattr(msg, "data_set", None) is not None:
        try:
            msg.data_set.seek(0)
            msg.data_set.read()
        except Exception:  # noqa: BLE001
            pass
    try:
        for p in msg.encode_msg(cid, mx):
            out.append(p)
    except Exception as e:  # noqa: BLE001
        err = type(e).__name__
    return out, err


def pdvs_of(pdatas):
    return [[c, d[0], bytes(d[1:])] for p in pdatas for c, d in p.presentation_data_value_list]


def lean_enc_request(case, b: Built):
    return ["dimse.enc", case["cid"], b.cmd, case["cls"], b.ds_param, b.path_param, case["max"]]


def canon_lean_enc(r):
    flag, pdvs, err = r
    return [flag == "T", [[c, k, bytes(p)] for c, k, p in pdvs], None if err == "none" else err]


def regroup(pdvs, seed):
    """split the PDV list into consecutive non-empty groups, chosen by the seed"""
    rng = random.Random(seed)
    mode = rng.randrange(4)
    if mode == 0 or len(pdvs) <= 1:
        return [[p] for p in pdvs]
    if mode == 1:
        return [list(pdvs)]
    pcut = rng.choice([0.2, 0.5, 0.8])
    groups, cur = [], []
    for p in pdvs:
        cur.append(p)
        if rng.random() < pcut:
            groups.append(cur)
            cur = []
    if cur:
        groups.append(cur)
    return groups


def all_groupings(pdvs):
    n = len(pdvs)
    for mask in range(1 << (n - 1)) if n else []:
        groups, cur = [], [pdvs[0]]
        for i in range(1, n):
            if mask >> (i - 1) & 1:
                groups.append(cur)
                cur = []
            cur.append(pdvs[i])
        groups.append(cur)
        yield groups


class _CxStub:
    """what decode_msg needs of an association when it receives a C-STORE data set into a file"""

    def __init__(self):
        from collections import defaultdict

        from pydicom.uid import ImplicitVRLittleEndian

        class _Cx:
            transfer_syntax = [ImplicitVRLittleEndian]

        self._accepted_cx = defaultdict(_Cx)


def _file_dataset_bytes(path):
    """the data-set bytes of a Part 10 file written by decode_msg (preamble, DICM, group 0002, then the data set)"""
    raw = open(path, "rb").read()
    if raw[128:132] != b"DICM" or raw[132:136] != b"\x02\x00\x00\x00":
        return raw
    n = int.from_bytes(raw[140:144], "little")
    return raw[144 + n :]


def real_decode(groups, wire=False, chunked=False):
    """feed groups of PDVs as P-DATA primitives to a fresh DIMSEMessage until decode_msg returns True.
    -> (canonical [outcome, remaining, encoded_command_set, data_set, context_id], message)"""
    from pynetdicom.dimse_messages import DIMSEMessage
    from pynetdicom.pdu import P_DATA_TF
    from pynetdicom.pdu_primitives import P_DATA

    from pynetdicom import _config

    msg = DIMSEMessage()
    outcome, used = "more", 0
    old_cfg = _config.STORE_RECV_CHUNKED_DATASET
    stub = _CxStub() if chunked else None
    if chunked:
        _config.STORE_RECV_CHUNKED_DATASET = True
    for g in groups:
        prim = P_DATA()
        for c, k, payload in g:
            prim.presentation_data_value_list.append((c, bytes([k]) + payload))
        if wire:
            pdu = P_DATA_TF()
            pdu.from_primitive(prim)
            raw = pdu.encode()
            pdu2 = P_DATA_TF()
            pdu2.decode(raw)
            prim = pdu2.to_primitive()
        used += 1
        try:
            done = msg.decode_msg(prim, stub) if chunked else msg.decode_msg(prim)
        except Exception:  # noqa: BLE001
            outcome = "error"
            break
        if done:
            outcome = "complete"
            break
    _config.STORE_RECV_CHUNKED_DATASET = old_cfg
    ds = msg.data_set.getvalue() if msg.data_set is not None else b""
    f = getattr(msg, "_data_set_file", None)
    if chunked and f is not None:
        import os

        try:
            f.close()
            ds = _file_dataset_bytes(f.name)
        finally:
            try:
                os.unlink(f.name)
            except OSError:
                pass
    return [outcome, len(groups) - used, msg.encoded_command_set.getvalue(), ds, msg.context_id], msg


def lean_dec_request(groups):
    return ["dimse.dec", [[[c, k, p] for c, k, p in g] for g in groups]]


def canon_lean_dec(r):
    o, rem, cmd, ds, ctx = r
    return [o, rem, bytes(cmd), bytes(ds), None if ctx == "none" else ctx]


SHAPE_RE = re.compile(rb"^\x01*\x03(\x00*\x02)?$")


def ceil_div(a, b):
    return -(-a // b)


def encode_oracles(ctx, case, b: Built, pdatas, err, prefix):
    """The property's oracles on what the real encode_msg produced.  Returns True if all hold."""
    from pynetdicom.pdu import P_DATA_TF

    mx, cid = case["max"], case["cid"]
    shape_sig = f"{case['shape']}:max{'0' if mx == 0 else 'N'}"
    ok = True

    def fail(what, text):
        nonlocal ok
        ok = False
        ctx.fail(f"{prefix}:{what}:{shape_sig}", f"{text} [{case}]", case)

    if err is not None:
        fail("raises", f"encode_msg raised {err} for a legal maximum")
        return False
    pdvs = pdvs_of(pdatas)
    # (1) PDV list of every PDU no longer than the maximum
    for p in pdatas:
        pdu = P_DATA_TF()
        pdu.from_primitive(p)
        plen = pdu.pdu_length
        if mx != 0 and plen > mx:
            fail("size", f"P-DATA-TF carries a PDV list of {plen} bytes > maximum {mx}")
            break
        if plen <= 70000 and len(pdu.encode()) != 6 + plen:
            fail("size-encoding", "encoded P-DATA-TF length differs from 6 + PDV list length")
            break
    # (2) control bytes 01* 03 (00* 02)?, context id
    ctl = bytes(k for _, k, _ in pdvs)
    if not SHAPE_RE.match(ctl):
        fail("shape", f"control bytes {ctl[:40].hex()} are not 01* 03 (00* 02)?")
    if any(c != cid for c, _, _ in pdvs):
        fail("context-id", "a PDV carries another context id")
    # (3) concatenation
    cmd = b"".join(p for _, k, p in pdvs if k & 1)
    ds = b"".join(p for _, k, p in pdvs if not k & 1)
    nds = sum(1 for _, k, _ in pdvs if not k & 1)
    if cmd != b.cmd:
        fail("concat-cmd", "command fragments do not concatenate to the encoded command set")
    if ds != b.expect_ds:
        fail("concat-ds", f"data fragments concatenate to {len(ds)} bytes, data set has {len(b.expect_ds)}")
    # (4) fragment count = ceil(len / (max-6)) (exact integer arithmetic), fragments full but the last
    for name, blob, frs in (("cmd", b.cmd, [p for _, k, p in pdvs if k & 1]), ("ds", b.expect_ds, [p for _, k, p in pdvs if not k & 1])):
        if name == "ds" and not frs:
            continue
        want = 1 if mx == 0 else ceil_div(len(blob), mx - 6)
        if name == "ds" and case["shape"] == "file" and not blob:
            want = 1
        if len(frs) != want:
            fail(f"count-{name}", f"{len(frs)} {name} fragments for {len(blob)} bytes, expected {want}")
        elif mx != 0 and any(len(f) != mx - 6 for f in frs[:-1]):
            fail(f"fill-{name}", f"a non-final {name} fragment is not full")
    # (5) C16: flag says data set <=> data fragments present
    if (b.flag != 0x0101) != (nds > 0):
        fail("flag", f"CommandDataSetType={b.flag:#06x} but {nds} data-set fragments are sent")
    return ok


def decode_oracles(ctx, case, b: Built, got, msg, prefix):
    from pynetdicom.dsutils import encode

    outcome, rem, cmd, ds, cid = got
    sig = f"{case['shape']}:max{'0' if case['max'] == 0 else 'N'}"
    if outcome != "complete" or rem != 0:
        ctx.fail(f"{prefix}:not-received:{sig}", f"receiver outcome {outcome} with {rem} primitives left [{case}]", case)
        return False
    ok = True
    if cmd != b.cmd or ds != b.expect_ds or cid != case["cid"]:
        ok = False
        ctx.fail(f"{prefix}:reassembly:{sig}", f"receiver reassembled different bytes / context id [{case}]", case)
    elif type(msg).__name__ != case["cls"] or encode(msg.command_set, True, True) != b.cmd:
        ok = False
        ctx.fail(f"{prefix}:reassembly-class:{sig}", f"receiver decoded {type(msg).__name__} [{case}]", case)
    return ok
