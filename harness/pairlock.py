"""Product lockstep: two real `DULServiceProvider` reactors (a requestor's and an acceptor's) under
lockstep control, joined by the harness the way `Model/Pair.lean` joins two reactor models.

Each reactor is a `lockstep.RealDul` with a harness-held peer socket.  A *delivery* step moves the
next PDU one reactor has really put on the wire (read from the harness end of its connection) to the
other reactor's connection, or - once the sender has closed and everything it sent has been moved -
closes that direction (EOF).  Per-side steps are the single-reactor steps.  So a schedule of
`Pair.step`s can be interpreted on the two real threads and the whole product state compared with
the Lean model after every step.
"""
from __future__ import annotations

import socket

from harness.lockstep import RealDul

PDU_EVT = {1: 6, 2: 3, 3: 4, 4: 10, 5: 12, 6: 13, 7: 16}  # PDU type -> event it raises at the receiver


def _echo_pdata():
    """a P-DATA primitive carrying a complete, decodable C-ECHO-RQ (so that the receiving reactor's DT-2
    does not turn it into Evt19)"""
    from pynetdicom.dimse_messages import C_ECHO_RQ
    from pynetdicom.dimse_primitives import C_ECHO

    c = C_ECHO()
    c.MessageID = 1
    c.AffectedSOPClassUID = "1.2.840.10008.1.1"
    m = C_ECHO_RQ()
    m.primitive_to_message(c)
    return next(iter(m.encode_msg(1, 16382)))


class Side(RealDul):
    def __init__(self, requestor):
        self.sent_kinds = []
        super().__init__(requestor)
        from pynetdicom import evt

        self.assoc.bind(evt.EVT_DATA_SENT, self._on_sent_kind)

    def _on_sent_kind(self, e):
        self.sent_kinds.append(PDU_EVT.get(e.data[0], 0))

    def _prim(self, k):
        if k == "pdata":
            return _echo_pdata()
        return super()._prim(k)

    def closed(self):
        o = self.obs()
        return (not o[3]) or o[5]  # not connected, or told to stop

    def outcome(self):
        """`provOutcome` of Model/Pair.lean, computed from the real transition notifications"""
        from pynetdicom.fsm import TRANSITION_TABLE

        acts = [(TRANSITION_TABLE.get((f"Evt{e}", f"Sta{c}")), n) for e, c, n in self.transitions]
        names = [a for a, _ in acts]
        if "AR-3" in names or "AR-4" in names:
            return "released"
        if "AE-4" in names or "AE-8" in names or ("AE-6", 13) in acts:
            return "rejected"
        return "aborted"

    def aborted_awaiting(self):
        from pynetdicom.fsm import TRANSITION_TABLE

        return any(TRANSITION_TABLE.get((f"Evt{e}", f"Sta{c}")) == "AA-1" and c in (5, 7, 11) for e, c, n in self.transitions)

    def read_pdu(self, timeout=2.0):
        """one whole PDU from the harness end of this reactor's connection"""
        self.peer.settimeout(timeout)
        buf = b""
        try:
            while len(buf) < 6:
                chunk = self.peer.recv(6 - len(buf))
                if not chunk:
                    return None
                buf += chunk
            n = int.from_bytes(buf[2:6], "big")
            while len(buf) < 6 + n:
                chunk = self.peer.recv(6 + n - len(buf))
                if not chunk:
                    return None
                buf += chunk
        except (socket.timeout, OSError):
            return None
        return buf


class RealPair:
    def __init__(self):
        self.r = Side(True)
        self.a = Side(False)
        self.r_seen = self.a_seen = 0
        self.r_eof = self.a_eof = False

    @property
    def up(self):
        return self.r.peer is not None

    def _deliver(self, snd, rcv, seen, eof):
        if seen < len(snd.sent_kinds):
            data = snd.read_pdu()
            if data is None:
                raise RuntimeError("a PDU the sender reported as sent did not arrive at the harness end")
            rcv._feed(data)
            return seen + 1, eof
        if snd.closed() and not eof:
            rcv.step("eof")
            return seen, True
        return seen, eof

    def step(self, st):
        """st: ["r", step] | ["a", step] | "deliverRA" | "deliverAR"; returns False if the model treats it as a no-op"""
        if st == "deliverRA":
            if not self.up:
                return
            self.r_seen, self.r_eof = self._deliver(self.r, self.a, self.r_seen, self.r_eof)
        elif st == "deliverAR":
            if not self.up:
                return
            self.a_seen, self.a_eof = self._deliver(self.a, self.r, self.a_seen, self.a_eof)
        elif st[0] == "r":
            self.r.step(st[1])
        elif st[0] == "a":
            if self.up:
                self.a.step(st[1])
        else:
            raise ValueError(st)

    def obs(self):
        def side(s):
            return [s.obs(), list(s.sent_kinds), s.outcome(), s.aborted_awaiting()]

        return [side(self.r), side(self.a), self.up, self.r_seen, self.a_seen, self.r_eof, self.a_eof]

    def close(self):
        for s in (self.a, self.r):  # reverse order of creation: each restores the previous excepthook
            try:
                s.close()
            except Exception:
                pass
