"""Shared machinery of the checks: lake build + axiom audit, the Lean driver,
case accounting, known findings, the verdict and the evidence file.

Flow of one check (DESIGN.md §2):
  translate -> lake build Props.<id> + pvdriver -> audit -> correspondence +
  property oracle on the implementation -> (search) -> verdict + evidence.
"""
from __future__ import annotations

import collections
import fcntl
import hashlib
import json
import os
import random
import re
import subprocess
import sys
import time
import traceback

ROOT = os.path.dirname(os.path.dirname(os.path.abspath(__file__)))
LEAN = os.path.join(ROOT, "lean")
REPO = os.environ.get("VERIF_REPO", "/repo")
DRIVER = os.path.join(LEAN, ".lake", "build", "bin", "pvdriver")
ALLOWED_AXIOMS = {"propext", "Classical.choice", "Quot.sound"}
FORBIDDEN = re.compile(
    r"\bsorry\b|\badmit\b|^\s*axiom\s|native_decide|bv_decide|implemented_by|\bunsafe\s|maxHeartbeats\s+0\b"
)

from . import sexp  # noqa: E402


class ToolFailure(Exception):
    """Infrastructure problem (exit 2), never a verdict about the code."""


# --------------------------------------------------------------------------
# Lean side
# --------------------------------------------------------------------------
class _Lock:
    def __enter__(self):
        os.makedirs(os.path.join(LEAN, ".lake"), exist_ok=True)
        self.f = open(os.path.join(LEAN, ".lake", "verif.lock"), "w")
        fcntl.flock(self.f, fcntl.LOCK_EX)
        return self

    def __exit__(self, *a):
        fcntl.flock(self.f, fcntl.LOCK_UN)
        self.f.close()


def _strip_comments(src: str) -> str:
    src = re.sub(r"/-.*?-/", "", src, flags=re.S)
    return "\n".join(l.split("--")[0] for l in src.splitlines())


def lake_build(targets, timeout=3000):
    with _Lock():
        p = subprocess.run(
            ["lake", "build", *targets], cwd=LEAN, capture_output=True, text=True, timeout=timeout
        )
    return p.returncode == 0, (p.stdout + p.stderr)


def prop_modules(pid: str):
    """Props/<pid>.lean plus continuation files Props/<pid><Letters>.lean (e.g. C05Inv.lean)."""
    d = os.path.join(LEAN, "PynetVerif", "Props")
    return sorted(f[:-5] for f in os.listdir(d) if re.fullmatch(pid + r"[A-Za-z]*\.lean", f))


def theorems_of(pid: str):
    """Property theorems = every `theorem <pid>_*` in Props/<pid>*.lean."""
    out = []
    for m in prop_modules(pid):
        src = _strip_comments(open(os.path.join(LEAN, "PynetVerif", "Props", m + ".lean")).read())
        out += re.findall(r"^\s*theorem\s+(?:PynetVerif\.)?(" + pid + r"_\w+)", src, flags=re.M)
    return out


def forbidden_tokens():
    hits = []
    for d, _, fs in os.walk(os.path.join(LEAN, "PynetVerif")):
        for f in fs:
            if f.endswith(".lean"):
                p = os.path.join(d, f)
                for i, line in enumerate(_strip_comments(open(p).read()).splitlines(), 1):
                    if FORBIDDEN.search(line):
                        hits.append(f"{os.path.relpath(p, LEAN)}:{i}: {line.strip()}")
    src = _strip_comments(open(os.path.join(LEAN, "Main.lean")).read())
    for i, line in enumerate(src.splitlines(), 1):
        if FORBIDDEN.search(line):
            hits.append(f"Main.lean:{i}: {line.strip()}")
    return hits


def audit(pid: str, names):
    """`#print axioms` for each theorem; returns {name: [axioms]} (missing = not found)."""
    d = os.path.join(LEAN, ".lake", "audit")
    os.makedirs(d, exist_ok=True)
    path = os.path.join(d, f"{pid}.lean")
    with open(path, "w") as f:
        for m in prop_modules(pid):
            f.write(f"import PynetVerif.Props.{m}\n")
        f.write("open PynetVerif\n")
        for n in names:
            f.write(f"#print axioms {n}\n")
    p = subprocess.run(["lake", "env", "lean", path], cwd=LEAN, capture_output=True, text=True, timeout=1800)
    out = p.stdout + p.stderr
    res = {}
    for m in re.finditer(r"'([\w.]+)' depends on axioms: \[([^\]]*)\]", out, flags=re.S):
        res[m.group(1).split(".")[-1]] = [a.strip() for a in m.group(2).replace("\n", " ").split(",") if a.strip()]
    for m in re.finditer(r"'([\w.]+)' does not depend on any axioms", out):
        res[m.group(1).split(".")[-1]] = []
    return res, out


class Driver:
    """Batch interface to the compiled Lean model driver (one S-expression per line)."""

    def __init__(self):
        if not os.path.exists(DRIVER):
            raise ToolFailure("pvdriver not built")

    def ask(self, requests, timeout=3000):
        if not requests:
            return []
        data = "\n".join(sexp.dumps(r) for r in requests) + "\n"
        # another check running at the same time may be relinking the driver (the binary is replaced, not updated in
        # place): wait for it to reappear instead of failing
        for attempt in range(120):
            try:
                p = subprocess.run([DRIVER], input=data, capture_output=True, text=True, timeout=timeout)
                break
            except (FileNotFoundError, PermissionError, OSError) as exc:
                if attempt == 119:
                    raise ToolFailure(f"pvdriver cannot be started: {exc}")
                time.sleep(1.0)
        if p.returncode != 0:
            raise ToolFailure(f"pvdriver exit {p.returncode}: {p.stderr[-2000:]}")
        lines = p.stdout.splitlines()
        if len(lines) != len(requests):
            raise ToolFailure(f"pvdriver returned {len(lines)} lines for {len(requests)} requests")
        return [sexp.loads(l) for l in lines]


# --------------------------------------------------------------------------
# Known findings
# --------------------------------------------------------------------------
def known_findings(pid):
    path = os.path.join(ROOT, "known_findings.json")
    if not os.path.exists(path):
        return []
    return [f for f in json.load(open(path))["findings"] if f["property"] == pid and f["status"] == "known"]


# --------------------------------------------------------------------------
# Context
# --------------------------------------------------------------------------
def jsonable(v):
    if isinstance(v, (bytes, bytearray)):
        return "x" + bytes(v).hex()
    if isinstance(v, (list, tuple)):
        return [jsonable(x) for x in v]
    if isinstance(v, dict):
        return {str(k): jsonable(x) for k, x in v.items()}
    if isinstance(v, (int, float, str, bool)) or v is None:
        return v
    return repr(v)


class Ctx:
    def __init__(self, pid, tier, seed):
        self.pid, self.tier, self.seed = pid, tier, seed
        self.rng = random.Random(seed)
        self.t0 = time.time()
        self.evaluations = 0
        self.nontrivial = set()
        self.hist = collections.Counter()
        self.samples = []
        self.diffs = []
        self.failures = []
        self.notes = []
        self.assumptions = []
        self.extra = {}
        self.proof = {"obligations": 0, "discharged": 0, "theorems": {}, "build_ok": None, "broken": []}
        self._driver = None
        self.exhaustive = False
        self.rule = ""

    @property
    def quick(self):
        return self.tier == "quick"

    def n(self, quick, thorough):
        return quick if self.quick else thorough

    @property
    def driver(self):
        if self._driver is None:
            self._driver = Driver()
        return self._driver

    def lean(self, requests):
        return self.driver.ask(requests)

    # ---- accounting -----------------------------------------------------
    def case(self, case, nontrivial=True, kind="case"):
        self.evaluations += 1
        self.hist[kind] += 1
        if nontrivial:
            h = hashlib.blake2b(json.dumps(jsonable(case), sort_keys=True).encode(), digest_size=8).digest()
            self.nontrivial.add(h)
        if len(self.samples) < 3 or (len(self.samples) < 6 and self.rng.random() < 0.01):
            self.samples.append(jsonable(case))

    def diff(self, case, impl, model, what="model/implementation disagree"):
        self.diffs.append({"case": jsonable(case), "impl": jsonable(impl), "model": jsonable(model), "what": what})

    def fail(self, sig, what, case):
        """The property's own oracle failed on the implementation for this case."""
        self.failures.append({"sig": sig, "what": what, "case": jsonable(case)})

    def note(self, s):
        self.notes.append(s)


# --------------------------------------------------------------------------
# Runner
# --------------------------------------------------------------------------
TRUSTED = [
    "Lean 4.33.0 kernel; axioms limited to propext, Classical.choice, Quot.sound (audited with #print axioms on every run)",
    "translator (/verif/translate) and correspondence harness (/verif/harness): trusted to report what they read/observe",
    "CPython, struct, threading, queue, socket, pydicom codec: modelled or outside the model, not verified",
]


def all_translators():
    """Every translator, on every run: a Props or Driver module of any property may import any Gen module, and a
    generated file left over from another tree (e.g. a seeded worktree) must never be what a theorem is checked
    against.  Each translator rewrites its file only when the content changes; all of them take about 2 s."""
    import importlib
    import pkgutil

    import translate

    out = []
    for m in sorted(pkgutil.iter_modules(translate.__path__), key=lambda m: m.name):
        mod = importlib.import_module("translate." + m.name)
        if hasattr(mod, "generate"):
            out.append(mod.generate)
    return out


def prove(ctx, mod):
    """Translate, build, audit.  Fills ctx.proof.  Never raises for a broken proof."""
    pid = ctx.pid
    gen_err = None
    for g in all_translators():
        try:
            g()
        except Exception:
            gen_err = traceback.format_exc()
            ctx.proof["broken"].append(f"translator {g.__module__}.{g.__name__} failed: {gen_err.splitlines()[-1]}")
    ok_drv, log_drv = lake_build(["pvdriver"])
    if not ok_drv:
        raise ToolFailure("pvdriver does not build:\n" + log_drv[-3000:])
    ok, log = lake_build([f"PynetVerif.Props.{m}" for m in prop_modules(pid)])
    names = theorems_of(pid)
    ctx.proof["obligations"] = len(names)
    ctx.proof["build_ok"] = ok and gen_err is None
    ctx.proof["checker_cmd"] = (
        f"cd lean && lake build PynetVerif.Props.{pid} && lake env lean .lake/audit/{pid}.lean  (#print axioms)"
    )
    if not ok:
        errs = re.findall(r"error: ([^\n]*\.lean:\d+:\d+: [^\n]*)", log)
        ctx.proof["broken"].extend(errs[:10] or ["lake build failed: " + log[-500:]])
        ctx.proof["log"] = log[-4000:]
        return
    forb = forbidden_tokens()
    if forb:
        ctx.proof["broken"].extend("forbidden token: " + h for h in forb)
    ax, out = audit(pid, names)
    discharged = 0
    for n in names:
        a = ax.get(n)
        ctx.proof["theorems"][n] = a
        if a is None:
            ctx.proof["broken"].append(f"theorem {n}: no axiom report ({out[-300:]})")
        elif not set(a) <= ALLOWED_AXIOMS:
            ctx.proof["broken"].append(f"theorem {n}: axioms {a}")
        else:
            discharged += 1
    ctx.proof["discharged"] = 0 if forb else discharged
    if ctx.tier == "thorough" and not ctx.proof["broken"]:
        p = subprocess.run(
            ["lake", "env", "leanchecker", *[f"PynetVerif.Props.{m}" for m in prop_modules(pid)]], cwd=LEAN, capture_output=True, text=True, timeout=3000
        )
        ctx.extra["leanchecker_exit"] = p.returncode
        if p.returncode != 0:
            ctx.proof["broken"].append("leanchecker rejected the compiled module: " + (p.stdout + p.stderr)[-300:])


def write_replay(ctx, name, payload):
    d = os.path.join(ROOT, "replays", ctx.pid)
    os.makedirs(d, exist_ok=True)
    path = os.path.join(d, name)
    with open(path, "w") as f:
        json.dump(jsonable(payload), f, indent=1)
    return os.path.relpath(path, ROOT)


def write_evidence(ctx, level, violations):
    cov = {
        "obligations": ctx.proof["obligations"],
        "discharged": ctx.proof["discharged"],
        "checker_cmd": ctx.proof.get("checker_cmd", ""),
        "trusted_base": TRUSTED + ctx.assumptions,
        "theorems": {k: v for k, v in ctx.proof["theorems"].items()},
        "evaluations": ctx.evaluations,
        "distinct_nontrivial": len(ctx.nontrivial),
        "rule": ctx.rule,
        "samples": ctx.samples[:6] or [{"obligation": n} for n in list(ctx.proof["theorems"])[:5]] or ["none"],
        "input_distribution": dict(ctx.hist),
        "model_impl_disagreements": len(ctx.diffs),
        "traces_validated_against_impl": ctx.evaluations,
        "exhaustive": bool(ctx.exhaustive),
        "explanation": "; ".join(ctx.notes),
    }
    cov.update(ctx.extra)
    if level == "proof" and not cov["discharged"]:
        # nothing was proved on this run (a proof obligation or the build broke): what the run did is the search for a
        # failing input; say so instead of claiming a proof level the schema (rightly) refuses with 0 discharged
        level = "exploration"
        cov["explanation"] = ("NO PROOF ON THIS RUN - broken obligations: " + "; ".join(ctx.proof["broken"][:5]) + ". " + cov["explanation"]).strip()
    ev = {
        "property_id": ctx.pid,
        "tier": ctx.tier,
        "seed": ctx.seed,
        "level": level,
        "coverage": cov,
        "assumptions": TRUSTED + ctx.assumptions,
        "wall_s": round(time.time() - ctx.t0, 2),
        "violations": violations,
    }
    # evidence/ describes runs on /repo's working tree; a run against another tree (VERIF_REPO: a scratch worktree with a
    # seeded change) must not overwrite it
    sub = "evidence" if os.path.realpath(os.environ.get("VERIF_REPO", "/repo")) == "/repo" else "evidence-other-tree"
    os.makedirs(os.path.join(ROOT, sub), exist_ok=True)
    with open(os.path.join(ROOT, sub, f"{ctx.pid}.json"), "w") as f:
        json.dump(ev, f, indent=1)


def verdict(ctx, mod):
    """Prints KNOWN-FINDING / VIOLATION lines, writes evidence, returns exit code."""
    pid = ctx.pid
    known = known_findings(pid)
    unlisted, printed = [], set()
    for f in ctx.failures:
        k = next((k for k in known if k["sig"] == f["sig"]), None)
        if k is not None:
            if k["sig"] not in printed:
                printed.add(k["sig"])
                print(f"KNOWN-FINDING: property={pid} {k['what']}")
        else:
            unlisted.append(f)
    violations = 0
    if unlisted:
        by_sig = collections.OrderedDict()
        for f in unlisted:
            by_sig.setdefault(f["sig"], f)
        for sig, f in by_sig.items():
            violations += 1
            path = write_replay(ctx, f"{re.sub(r'[^A-Za-z0-9_.-]', '_', sig)[:80]}.json", {"property": pid, **f})
            print(f"  failing input: {f['what']}")
            print(f"VIOLATION property={pid} replay={path}")
    elif ctx.proof["broken"] or ctx.diffs:
        violations = 1
        path = write_replay(
            ctx,
            "unproved.json",
            {
                "property": pid,
                "broken_obligations": ctx.proof["broken"],
                "model_impl_disagreements": ctx.diffs[:20],
                "note": "the property is no longer shown to hold: a theorem or the model/implementation "
                "correspondence no longer checks, and the failing-input search on the implementation found none",
            },
        )
        for b in ctx.proof["broken"][:5]:
            print("  broken obligation:", b)
        for d in ctx.diffs[:3]:
            print("  correspondence diff:", json.dumps(d)[:600])
        print(f"VIOLATION property={pid} replay={path} no-failing-input-found")
    level = getattr(mod, "LEVEL", "proof")
    write_evidence(ctx, level, violations)
    print(
        f"[{pid}] tier={ctx.tier} seed={ctx.seed} theorems={ctx.proof['discharged']}/{ctx.proof['obligations']} "
        f"cases={ctx.evaluations} nontrivial={len(ctx.nontrivial)} diffs={len(ctx.diffs)} "
        f"oracle_failures={len(ctx.failures)} known={len(printed)} violations={violations} "
        f"wall={time.time() - ctx.t0:.1f}s"
    )
    return 1 if violations else 0


def run_check(pid, tier, seed, replay=None):
    import importlib

    os.environ.setdefault("PYNETDICOM_VERIF", "1")
    if REPO not in sys.path:
        sys.path.insert(0, REPO)
    mod = importlib.import_module(f"harness.props.{pid.lower()}")
    ctx = Ctx(pid, tier, seed)
    try:
        if replay:
            case = json.load(open(replay))
            return mod.replay(ctx, case)
        prove(ctx, mod)
        try:
            mod.run(ctx)
        except ToolFailure:
            raise
        except Exception:
            # the harness itself could not drive the implementation: with a
            # changed tree this is a broken correspondence, not a verdict
            ctx.diffs.append({"what": "harness exception", "trace": traceback.format_exc()[-3000:]})
        if (ctx.proof["broken"] or ctx.diffs) and not ctx.failures and hasattr(mod, "search"):
            try:
                mod.search(ctx)
            except ToolFailure:
                raise
            except Exception:
                ctx.notes.append("search raised: " + traceback.format_exc()[-500:])
        return verdict(ctx, mod)
    except ToolFailure as e:
        print(f"TOOL-FAILURE [{pid}]: {e}", file=sys.stderr)
        return 2
    except subprocess.TimeoutExpired as e:
        print(f"TIMEOUT [{pid}]: {e}", file=sys.stderr)
        return 2
