"""C28 add-on: SCU finality follows the status category — behavioural check on the REAL generators.

For every code of every `*_STATUS` table of pynetdicom.status, one representative of each of the
six categories and 0xB001, the real `send_c_find` (ordinary and Repository Query model),
`send_c_get` and `send_c_move` are driven in-process (harness/scu_rig.py) with a single scripted
valid response of that status, after which the peer is silent.  "The generator continued" = it
asked `dimse.get_msg` for another message.  Oracle: final <=> code_to_category(code) != Pending,
except (Repository Query, 0xB001), which is not final.  The Lean `Status.scuFinal` is compared too.
SCP side (`scp_check`): for every C-FIND-type service class and every code of its OWN status table the real
`_c_find_scp` is run with a handler that yields that status and then a Pending match; "continued" = the Pending match
was still answered.  Oracle: within one service the decision is a function of the table's category (what the code
does: Pending and Warning go on, Success/Failure/Cancel end the operation) - never of the individual code.
"""
from . import scu_rig as R

REPS = [0x0000, 0x0001, 0xA700, 0xFE00, 0xFF00, 0x0002, 0xB001, 0xFF01, 0xB000, 0xC000, 0xFFFF]
SERVICES = [("find", "find", False), ("findrq", "find", True), ("get", "get", False), ("move", "move", False)]


def continued(svc, kind, code, model=None):
    out = R.run(svc, [["rsp", kind, True, code, "absent", 0]], model=model)
    if out["raised"] is not None or out["overrun"] or not out["yields"] or out["yields"][0][0] != code:
        return None, out
    return out["recvs"] >= 2, out


def check(ctx):
    from pynetdicom import status as st
    from pynetdicom._globals import STATUS_PENDING

    R.setup()
    codes = set(REPS)
    for name in sorted(vars(st)):
        tab = getattr(st, name)
        if name.endswith("_STATUS") and isinstance(tab, dict):
            codes |= {c for c in tab if isinstance(c, int) and 0 <= c < 65536}
    codes = sorted(codes)
    model = ctx.lean([["scufinal", rq, c] for _, _, rq in SERVICES for c in codes])
    i = 0
    for svc, kind, rq in SERVICES:
        for c in codes:
            m_final = model[i] == "T"
            i += 1
            cat = st.code_to_category(c)
            want_final = not (rq and c == 0xB001) and cat != STATUS_PENDING
            cont, out = continued(svc, kind, c)
            case = ["scu-final", svc, c]
            ctx.case(case, nontrivial=True, kind=f"scu-final:{svc}:{cat}")
            if cont is None:
                ctx.fail(
                    f"scu-final:{svc}:{c:#06x}",
                    f"{svc}: a single valid response with status {c:#06x} was not surfaced as the first yield "
                    f"(yields={out['yields']}, raised={out['raised']})",
                    case,
                )
                continue
            if (not cont) != want_final:
                ctx.fail(
                    f"scu-final:{svc}:{c:#06x}",
                    f"{svc}: status {c:#06x} ({cat}) {'continued' if cont else 'stopped'} but must be "
                    f"{'final' if want_final else 'non-final'}",
                    case,
                )
            if (not cont) != m_final:
                ctx.diff(case, not cont, m_final, "SCU finality: real generator vs Lean Status.scuFinal")
    ctx.extra["scu_finality_cases"] = len(codes) * len(SERVICES)
    # every query/retrieve information model the SCU calls accept x the codes where finality could be model-dependent
    # (the Warning codes of the C-FIND tables, 0xB001 above all, and one representative per category)
    from pynetdicom import sop_class as sc
    from pynetdicom.sop_class import uid_to_service_class

    models = {"find": [], "get": [], "move": []}
    for name in sorted(vars(sc)):
        uid = getattr(sc, name)
        if not isinstance(uid, sc.SOPClass) or name.startswith("_"):
            continue
        try:
            klass = uid_to_service_class(uid).__name__
        except Exception:
            continue
        low = name.lower()
        if klass in ("QueryRetrieveServiceClass", "BasicWorklistManagementServiceClass", "RelevantPatientInformationQueryServiceClass",
                     "SubstanceAdministrationQueryServiceClass", "HangingProtocolQueryRetrieveServiceClass",
                     "DefinedProcedureProtocolQueryRetrieveServiceClass", "ColorPaletteQueryRetrieveServiceClass",
                     "ImplantTemplateQueryRetrieveServiceClass", "ProtocolApprovalQueryRetrieveServiceClass",
                     "InventoryQueryRetrieveServiceClass", "UnifiedProcedureStepServiceClass"):
            if low.endswith("find") or "worklist" in low or "informationquery" in low or low == "repositoryquery" or klass.startswith(("Relevant", "Substance")):
                models["find"].append((name, uid))
            elif low.endswith("get"):
                models["get"].append((name, uid))
            elif low.endswith("move"):
                models["move"].append((name, uid))
    probe = [0x0000, 0xB000, 0xB001, 0xA700, 0xFE00, 0xFF00, 0xFF01, 0xC000]
    n_models = 0
    for kind, lst in models.items():
        for name, uid in lst:
            n_models += 1
            for c in probe:
                cat = st.code_to_category(c)
                want_final = not (str(uid) == str(sc.RepositoryQuery) and c == 0xB001) and cat != STATUS_PENDING
                try:
                    cont, out = continued(kind, kind, c, model=uid)
                except Exception as exc:  # a model the call refuses (e.g. not a C-FIND model after all): not a verdict
                    ctx.note(f"finality: {kind} with {name} not exercised ({type(exc).__name__})")
                    break
                case = ["scu-final-model", kind, name, c]
                ctx.case(case, nontrivial=True, kind=f"scu-final-model:{kind}")
                if cont is None:
                    if out["raised"] is not None:
                        ctx.note(f"finality: {kind} with {name} not exercised ({out['raised'][:60]})")
                        break
                    continue
                if (not cont) != want_final:
                    ctx.fail(f"scu-final:{kind}:{name}:{c:#06x}",
                             f"{kind} with query model {name}: status {c:#06x} ({cat}) {'continued' if cont else 'stopped'} but must be "
                             f"{'final' if want_final else 'non-final'}", case)
    ctx.extra["scu_finality_models"] = n_models


def scp_check(ctx):
    from . import scp_driver as sd

    S = sd.services()
    ds = ["ds", 1, False, None, True, True]
    n = 0
    for name, svc in S.items():
        if svc["op"] != "scp.find":
            continue
        probe = sd.run_scp(svc, ["gen", ["y", ["p", ["i", 0x0000], None, "su"], 0]])
        from pynetdicom import status as st

        table = probe["table"]  # the NAME of the service's *_STATUS table
        by_cat = {}
        for code in sorted(c for c in getattr(st, table) if isinstance(c, int)):
            cat = sd.table_cat(table, code)
            h = ["gen", ["y", ["p", ["i", code], ds if cat == "Pending" else None, "su"], 0], ["y", ["p", ["i", 0xFF00], ds, "su"], 0]]
            r = sd.run_scp(svc, h)
            sts = [x["status"] for x in r["raw"]]
            cont = len(sts) >= 2 and sts[0] == code and sts[1] == 0xFF00
            by_cat.setdefault(cat, {}).setdefault(cont, []).append(code)
            n += 1
            ctx.case(["scp-final", name, code], nontrivial=True, kind=f"scp-final:{name}:{cat}")
        for cat, d in by_cat.items():
            if len(d) > 1:
                ctx.fail(f"scp-final:{name}:{cat}:decision-depends-on-the-code",
                         f"{name}: codes of the table category {cat} are treated differently - the operation goes on after "
                         f"{[hex(c) for c in d[True]]} but ends after {[hex(c) for c in d[False]]}", ["scp-final", name, d[False][0]])
            want = cat in ("Pending", "Warning")
            got = next(iter(d)) if len(d) == 1 else None
            if got is not None and got != want:
                ctx.fail(f"scp-final:{name}:{cat}:{'ends' if want else 'goes-on'}",
                         f"{name}: after a {cat} status of its table the operation {'goes on' if got else 'ends'}", ["scp-final", name, d[got][0]])
    ctx.extra["scp_finality_cases"] = n
