"""Generators of PDU item trees and service primitives (terms of harness/pdu_terms.py),
shared by C01 and C02.  Everything is seeded from the `random.Random` passed in.
The terms are turned into real pynetdicom objects through the public setters, so
only API-accepted values reach the checks (the object's own term is what is
compared afterwards)."""
from __future__ import annotations

KNOWN_UIDS = [
    b"1.2.840.10008.3.1.1.1", b"1.2.840.10008.1.1", b"1.2.840.10008.1.2", b"1.2.840.10008.1.2.1",
    b"1.2.840.10008.1.2.2", b"1.2.840.10008.5.1.4.1.1.2", b"1.2.840.10008.5.1.4.1.2.2.1",
    b"1.2.826.0.1.3680043.9.3811.2.0.0", b"1.2.840.10008.1.2.4.50", b"1.2.840.10008.4.2",
]
AE_CHARS = bytes(c for c in range(32, 127) if c != 92)


def uid(r, allow_odd=True) -> bytes:
    k = r.random()
    if k < 0.35:
        return r.choice(KNOWN_UIDS)
    n = r.choice([1, 2, 3, 8, 17, 30, 63, 64]) if k < 0.7 else r.randint(1, 64)
    if allow_odd and k > 0.95:
        # non-conformant but API-accepted characters (the API only warns); no whitespace/NUL at the ends
        body = bytes(r.choice(b"0123456789.abcXYZ-_ ") for _ in range(n))
        body = body.strip() or b"1"
        return body
    out = bytearray()
    while len(out) < n:
        out += str(r.randint(0, 99999)).encode() + b"."
    out = out[:n]
    if out.endswith(b"."):
        out[-1:] = b"7"
    return bytes(out)


def ae(r) -> bytes:
    k = r.random()
    n = r.choice([1, 2, 8, 15, 16]) if k < 0.5 else r.randint(1, 16)
    core = bytes(r.choice(AE_CHARS) for _ in range(n))
    if not core.strip(b" "):
        core = b"A" + core[1:]
    if k > 0.6:
        # leading / trailing padding inside the 16 characters (not significant per PS3.8)
        core = core.strip(b" ") or b"A"
        room = 16 - len(core)
        lead = r.randint(0, room)
        trail = r.randint(0, room - lead)
        core = b" " * lead + core + b" " * trail
    return core


def blob(r, big=False) -> bytes:
    n = r.choice([0, 1, 2, 7, 64, 255, 256]) if r.random() < 0.7 else r.randint(0, 600)
    if big and r.random() < 0.006:
        n = r.choice([65000, 65535, 40000, 65525])
    if n <= 64:
        out = bytearray(r.getrandbits(8) for _ in range(n))
    else:
        pat = bytes(r.getrandbits(8) for _ in range(61))
        out = bytearray((pat * (n // 61 + 1))[:n])
    # opaque byte fields: the bytes a "tidy-up" would strip (NUL / space / newline padding) at either end
    if n and r.random() < 0.3:
        out[-1] = r.choice([0, 0, 0, 0x20, 0x0A])
        if n > 1 and r.random() < 0.3:
            out[-2] = out[-1]
    if n and r.random() < 0.12:
        out[0] = r.choice([0, 0x20, 0x0A])
    return bytes(out)


def ctx_id(r, strict=True) -> int:
    k = r.random()
    if k < 0.3:
        return r.choice([1, 3, 255, 253, 127])
    if not strict and k > 0.9:
        return r.choice([0, 2, 254, 128])
    return r.randrange(1, 256, 2)


def syn_list_rq(r):
    n = r.choice([1, 1, 2, 3, 5]) if r.random() < 0.9 else r.randint(1, 12)
    return [["abs", uid(r)]] + [["ts", uid(r)] for _ in range(n)]


def user_sub(r, kind=None):
    kind = kind or r.choice(["maxlen", "impluid", "async", "role", "implver", "sopext", "common", "uidrq", "uidac"])
    if kind == "maxlen":
        return ["maxlen", r.choice([0, 1, 16382, 65536, 2 ** 32 - 1, r.getrandbits(32)])]
    if kind == "impluid":
        return ["impluid", uid(r)]
    if kind == "async":
        return ["async", r.choice([0, 1, 5, 65535, r.getrandbits(16)]), r.choice([0, 1, 5, 65535, r.getrandbits(16)])]
    if kind == "role":
        return ["role", uid(r), r.randint(0, 1), r.randint(0, 1)]
    if kind == "implver":
        n = r.choice([1, 2, 15, 16, r.randint(1, 16)])
        return ["implver", bytes(r.choice(AE_CHARS) for _ in range(n))]
    if kind == "sopext":
        return ["sopext", uid(r), blob(r)]
    if kind == "common":
        m = r.choice([0, 0, 1, 2, 3, r.randint(0, 8)])
        return ["common", 0, uid(r), uid(r), [uid(r, allow_odd=False) for _ in range(m)]]
    if kind == "uidrq":
        t = r.randint(1, 5)
        prim = blob(r, big=True)
        sec = blob(r) if (t == 2 or r.random() < 0.2) else b""
        if t == 2 and not sec:
            sec = b"pw"
        return ["uidrq", t, r.randint(0, 1), prim, sec]
    if kind == "uidac":
        return ["uidac", blob(r, big=True)]
    raise ValueError(kind)


USER_KINDS = ["maxlen", "impluid", "async", "role", "implver", "sopext", "common", "uidrq", "uidac"]


def user_info(r):
    k = r.random()
    if k < 0.1:
        kinds = []
    elif k < 0.5:
        kinds = ["maxlen", "impluid"] + r.sample(USER_KINDS[2:], r.randint(0, 4))
    else:
        kinds = [r.choice(USER_KINDS) for _ in range(r.randint(1, 9))]
    return ["ui", [user_sub(r, kd) for kd in kinds]]


def assoc_term(r, kind, strict=True):
    """A-ASSOCIATE-RQ/AC item tree.  strict: the PS3.8 structure (app ctx, contexts, user info)."""
    items = [["app", uid(r)]]
    ncx = r.choice([1, 1, 2, 3, 8]) if r.random() < 0.9 else r.randint(0, 40)
    if strict and ncx == 0:
        ncx = 1
    for _ in range(ncx):
        if kind == "rq":
            items.append(["pcrq", ctx_id(r, strict), syn_list_rq(r)])
        else:
            items.append(["pcac", ctx_id(r, strict), r.randint(0, 4), [["ts", uid(r)]]])
    items.append(user_info(r))
    if not strict:
        r.shuffle(items)
        if r.random() < 0.3:
            items = [i for i in items if r.random() < 0.7]
    ver = 1 if r.random() < 0.8 else r.choice([0, 2, 3, 65535, r.getrandbits(16)])
    return [kind, ver, ae(r), ae(r), items]


RJ_VALID = [(r_, s, d) for r_ in (1, 2) for s, ds in ((1, (1, 2, 3, 7)), (2, (1, 2)), (3, (1, 2))) for d in ds]


def pdu_term(r, strict=True):
    k = r.random()
    if k < 0.30:
        return assoc_term(r, "rq", strict)
    if k < 0.55:
        return assoc_term(r, "ac", strict)
    if k < 0.62:
        return ["rj", *r.choice(RJ_VALID)]
    if k < 0.85:
        n = r.choice([0, 1, 1, 2, 3]) if r.random() < 0.9 else r.randint(0, 30)
        out = []
        for _ in range(n):
            d = blob(r)
            if r.random() < 0.8 and not d:
                d = b"\x03"
            out.append([ctx_id(r, strict), d])
        return ["pdata", out]
    if k < 0.90:
        return ["relrq"]
    if k < 0.95:
        return ["relrp"]
    if r.random() < 0.5:
        return ["abort", 0, 0 if r.random() < 0.7 else r.getrandbits(8)]
    return ["abort", 2, r.choice([0, 1, 2, 4, 5, 6])]


# --------------------------------------------------------------------------
# primitives
# --------------------------------------------------------------------------
def uprim(r, kind=None):
    kind = kind or r.choice(USER_KINDS)
    t = user_sub(r, kind)
    if kind == "role":
        a, b = r.choice([(True, True), (True, False), (False, True)])
        return ["role", t[1], a, b]
    if kind == "common":
        return ["common", t[2], t[3], t[4]]
    if kind == "uidrq":
        return ["uidrq", t[1], bool(t[2]), t[3], t[4]]
    return t


def prim_term(r):
    k = r.random()
    if k < 0.40:
        rq = k < 0.22
        cxs = []
        ids = r.sample(range(1, 256, 2), r.choice([1, 1, 2, 3, 10, 128]) if r.random() < 0.95 else 0)
        for cid in ids:
            if rq:
                ts = []
                for _ in range(r.choice([1, 1, 2, 4])):
                    u = uid(r, allow_odd=False)
                    if u not in ts:
                        ts.append(u)
                cxs.append([cid, uid(r, allow_odd=False), ts, None])
            else:
                cxs.append([cid, None, [uid(r, allow_odd=False)], r.randint(0, 4)])
        kinds = ["maxlen", "impluid"] + r.sample(USER_KINDS[2:], r.randint(0, 5))
        if r.random() < 0.3:
            kinds += [r.choice(["role", "sopext", "common"]) for _ in range(r.randint(1, 4))]
        if rq:
            kinds = [x for x in kinds if x != "uidac"]
        else:
            kinds = [x for x in kinds if x != "uidrq"]
        ui = [uprim(r, kd) for kd in kinds]
        return ["assocrq" if rq else "assocac", ae(r), ae(r), uid(r, allow_odd=False), cxs, ui]
    if k < 0.50:
        return ["assocrj", *r.choice(RJ_VALID)]
    if k < 0.75:
        n = r.choice([0, 1, 1, 2, 3]) if r.random() < 0.9 else r.randint(0, 30)
        return ["pdata", [[ctx_id(r), blob(r) or b"\x03\x00"] for _ in range(n)]]
    if k < 0.82:
        return ["releaserq"]
    if k < 0.89:
        return ["releaserp"]
    if k < 0.93:
        return ["abort", r.choice([0, 0, 0, 1])]
    return ["pabort", r.choice([0, 1, 2, 4, 5, 6])]
