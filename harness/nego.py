"""Shared by C10/C11: UID pools, generators, adapters to the real negotiation
functions and to the Lean driver, canonical forms.

UIDs are real ones.  The abstract-syntax pool is sorted as Python sorts `str`
(that is how the code sorts role items), the index in that order is the `Nat`
the Lean model sees.  `STORAGE_LIKE` is labelled BY HAND from PS3.4/PS3.6 (is
the UID a Storage SOP class, private, or an unknown UID), not computed with the
code's own predicate.
"""
from __future__ import annotations

# (uid, hand label: treated as storage by an "unrestricted" storage SCP)
_ABS = [
    ("1.2.840.10008.1.1", False),  # Verification
    ("1.2.840.10008.1.20.1", False),  # Storage Commitment Push Model (N-EVENT-REPORT: uses role selection)
    ("1.2.840.10008.5.1.4.1.1.2", True),  # CT Image Storage
    ("1.2.840.10008.5.1.4.1.1.4", True),  # MR Image Storage
    ("1.2.840.10008.5.1.4.1.1.7", True),  # Secondary Capture Image Storage
    ("1.2.840.10008.5.1.4.1.2.1.1", False),  # Patient Root Q/R Find
    ("1.2.840.10008.5.1.4.1.2.1.3", False),  # Patient Root Q/R Get
    ("1.2.840.10008.5.1.4.31", False),  # Modality Worklist Find
    ("1.2.840.10008.5.1.1.16", False),  # Printer
    ("1.2.826.0.1.3680043.8.498.1", True),  # private (not under 1.2.840.10008)
    ("1.2.3.4", True),  # private
    ("1.2.840.10008.1.1.1.1.1.1.1.1.1.1.1", True),  # unknown public UID
]
ABS = sorted(u for u, _ in _ABS)
ABS_ID = {u: i for i, u in enumerate(ABS)}
STORAGE_LIKE = sorted(ABS_ID[u] for u, s in _ABS if s)

TS = [
    "1.2.840.10008.1.2",  # Implicit VR LE
    "1.2.840.10008.1.2.1",  # Explicit VR LE
    "1.2.840.10008.1.2.2",  # Explicit VR BE
    "1.2.840.10008.1.2.1.99",  # Deflated
    "1.2.840.10008.1.2.4.50",  # JPEG Baseline
    "1.2.840.10008.1.2.4.90",  # JPEG 2000 lossless
    "1.2.840.10008.1.2.5",  # RLE
]
TS_ID = {u: i for i, u in enumerate(TS)}
ROLE3 = [None, True, False]


# ---------------------------------------------------------------------------
# abstract cases: rq/ac = [(id, absN, [tsN], scu, scp)], roles = [(absN, scu, scp)]
# ---------------------------------------------------------------------------
def mk_cx(c):
    """abstract context -> real PresentationContext built with the repo's own class"""
    from pynetdicom.presentation import PresentationContext

    i, a, ts, scu, scp = c
    cx = PresentationContext()
    if i is not None:
        cx.context_id = i
    cx.abstract_syntax = ABS[a]
    cx.transfer_syntax = [TS[t] for t in ts]
    cx.scu_role = scu
    cx.scp_role = scp
    return cx


def mk_roles(roles):
    from pydicom.uid import UID

    return {UID(ABS[a]): (u, p) for a, u, p in roles}


def sx_cx(c):
    i, a, ts, scu, scp = c
    return [i if i is not None else 0, a, list(ts), scu, scp]


def sx_roles(roles):
    return [[a, u, p] for a, u, p in roles]


def _b(x):
    return {"T": True, "F": False, "none": None}[x] if isinstance(x, str) else x


def _err(e):
    return ["err", {IndexError: "index", KeyError: "key", ValueError: "value"}.get(type(e), "other:" + type(e).__name__)]


def canon_acc_real(res, items):
    out = []
    for c in res:
        ts = [TS_ID.get(str(t), 900) for t in c.transfer_syntax]
        out.append([c.context_id, ABS_ID.get(str(c.abstract_syntax), 900), c.result, ts[0] if len(ts) == 1 else ["ts", ts], c.as_scu, c.as_scp])
    its = [[ABS_ID.get(str(r.sop_class_uid), 900), r.scu_role, r.scp_role] for r in items]
    return ["ok", out, its]


def canon_acc_model(m):
    if m[0] != "ok":
        return m
    return ["ok", [[r[0], r[1], r[2], r[3], _b(r[4]), _b(r[5])] for r in m[1]], [[i[0], _b(i[1]), _b(i[2])] for i in m[2]]]


def canon_req_real(out):
    return ["ok", [[c.context_id, ABS_ID.get(str(c.abstract_syntax), 900), c.result, [TS_ID.get(str(t), 900) for t in c.transfer_syntax], c.as_scu, c.as_scp] for c in out]]


def canon_req_model(m):
    if m[0] != "ok":
        return m
    return ["ok", [[r[0], r[1], r[2], list(r[3]), _b(r[4]), _b(r[5])] for r in m[1]]]


def real_acceptor(rq, ac, roles, unrestricted=False):
    from pynetdicom import presentation as P

    f = P.negotiate_unrestricted if unrestricted else P.negotiate_as_acceptor
    try:
        res, items = f([mk_cx(c) for c in rq], [mk_cx(c) for c in ac], mk_roles(roles))
    except (IndexError, KeyError, ValueError) as e:
        return _err(e)
    return canon_acc_real(res, items)


def real_acse_mode(rq, ac, roles, unrestricted, via_handler=False):
    """The function `ACSE._negotiate_as_acceptor` selects under `_config.UNRESTRICTED_STORAGE_SERVICE`,
    observed by running that method on a real acceptor Association whose `send_accept` is a stub.
    via_handler: the supported contexts are put in place by a negotiation-time handler (EVT_USER_ID, e.g. contexts
    per authenticated user) - the acceptor starts with none; what counts is what is supported when the contexts are
    negotiated."""
    from pynetdicom import AE, _config, evt
    from pynetdicom.association import Association
    from pynetdicom.pdu_primitives import A_ASSOCIATE, SCP_SCU_RoleSelectionNegotiation, UserIdentityNegotiation

    ae = AE()
    assoc = Association(ae, "acceptor")
    assoc.acceptor.ae_title = "ACC"
    assoc.acceptor.supported_contexts = [] if via_handler else [mk_cx(c) for c in ac]
    if via_handler:
        def on_user_id(event):
            event.assoc.acceptor.supported_contexts = [mk_cx(c) for c in ac]
            return True, None

        assoc.bind(evt.EVT_USER_ID, on_user_id)
    prim = A_ASSOCIATE()
    prim.calling_ae_title = "REQ"
    prim.called_ae_title = "ACC"
    prim.presentation_context_definition_list = [mk_cx(c) for c in rq]
    items = []
    for a, u, p in roles:
        r = SCP_SCU_RoleSelectionNegotiation()
        r.sop_class_uid = ABS[a]
        r.scu_role, r.scp_role = u, p
        items.append(r)
    if via_handler:
        ui = UserIdentityNegotiation()
        ui.user_identity_type = 1
        ui.primary_field = b"user"
        items.append(ui)
    prim.user_information = items
    assoc.requestor.primitive = prim
    assoc.acse.send_accept = lambda: None
    old = _config.UNRESTRICTED_STORAGE_SERVICE
    _config.UNRESTRICTED_STORAGE_SERVICE = unrestricted
    try:
        assoc.acse._negotiate_as_acceptor()
    except (IndexError, KeyError, ValueError) as e:
        return _err(e)
    finally:
        _config.UNRESTRICTED_STORAGE_SERVICE = old
    res = sorted(list(assoc._accepted_cx.values()) + list(assoc._rejected_cx), key=lambda c: c.context_id)
    return canon_acc_real(res, list(assoc.acceptor.role_selection.values()))


def real_requestor(rq, wire, roles):
    """rq with scu/scp attributes; wire = [(id, result, [ts])]; roles = acceptor's role items"""
    from pynetdicom import presentation as P
    from pynetdicom.presentation import PresentationContext

    acs = []
    for i, r, ts in wire:
        cx = PresentationContext()
        cx.context_id = i
        cx.result = r
        cx.transfer_syntax = [TS[t] for t in ts]
        acs.append(cx)
    try:
        out = P.negotiate_as_requestor([mk_cx(c) for c in rq], acs, mk_roles(roles))
    except (IndexError, KeyError, ValueError) as e:
        return _err(e)
    return canon_req_real(out)


# ---------------------------------------------------------------------------
# generators
# ---------------------------------------------------------------------------
def gen_ts(rng, lo=1):
    k = rng.choice([lo, 1, 1, 2, 2, 3, 4, len(TS)])
    return rng.sample(range(len(TS)), min(k, len(TS)))


def gen_case(rng, nmax=20, malformed=False):
    """One (rq, ac, roles, kind).  Mostly valid: distinct odd ids, >= 1 transfer syntax, bool
    role proposals.  `malformed` adds what the functions' callers do not exclude: duplicate
    ids, contexts without transfer syntax, `None` inside a proposed role pair."""
    kind = []
    shape = rng.random()
    n = 0 if shape < 0.03 else (1 if shape < 0.15 else rng.randint(2, nmax))
    if shape > 0.97:
        n = nmax
    pool_n = rng.choice([2, 3, 5, len(ABS)])
    pool = rng.sample(range(len(ABS)), pool_n)
    ids = rng.sample(range(1, 256, 2), min(n, 128))
    if rng.random() < 0.5:
        ids.sort()
    ts_mode = rng.choice(["shared", "shared", "disjoint", "mixed", "mixed", "mixed"])
    half = rng.sample(range(len(TS)), len(TS))
    rq_ts_pool, ac_ts_pool = (half[:3], half[3:]) if ts_mode == "disjoint" else (half, half)

    def ts_from(p, lo=1):
        if ts_mode == "shared":
            return list(p[: rng.randint(lo, 3)])
        return rng.sample(p, rng.randint(lo, min(len(p), 4)))

    rq = [(ids[k], rng.choice(pool), ts_from(rq_ts_pool), None, None) for k in range(n)]
    # supported contexts
    m = rng.choice([1, 2, 3, len(pool), len(pool), len(pool)]) if rng.random() < 0.93 else 0
    sup = rng.sample(pool, min(m, len(pool)))
    if rng.random() < 0.3:
        sup += rng.sample(range(len(ABS)), 2)
    ac = []
    for a in sup:
        r = rng.random()
        if r < 0.35:
            scu, scp = None, None
        elif r < 0.9:
            scu, scp = rng.choice([True, False]), rng.choice([True, False])
        else:
            scu, scp = rng.choice(ROLE3), rng.choice(ROLE3)
        ac.append((None, a, ts_from(ac_ts_pool), scu, scp))
    if ac and rng.random() < 0.15:
        a = rng.choice(ac)
        ac.append((None, a[1], ts_from(ac_ts_pool), rng.choice(ROLE3), rng.choice(ROLE3)))
        kind.append("dup-supported")
    # role proposals (wire shape: bool pairs, incl. (False, False) from a foreign requestor)
    roles = []
    if rng.random() < 0.75:
        for a in rng.sample(pool, rng.randint(1, len(pool))):
            roles.append((a, rng.choice([True, False]), rng.choice([True, False])))
        if rng.random() < 0.2:  # a role for an abstract syntax that may not be proposed at all
            a = rng.randrange(len(ABS))
            if all(r[0] != a for r in roles):
                roles.append((a, True, True))
    if malformed and rq:
        what = rng.choice(["dup-id", "empty-ts", "none-role", "none-none-role"])
        kind.append(what)
        if what == "dup-id" and len(rq) >= 2:
            i, j = rng.sample(range(len(rq)), 2)
            same_abs = rng.random() < 0.5
            rq[j] = (rq[i][0], rq[i][1] if same_abs else rq[j][1], rq[j][2], None, None)
        elif what == "empty-ts":
            j = rng.randrange(len(rq))
            rq[j] = (rq[j][0], rq[j][1], [], None, None)
        elif what == "none-role":
            a = rng.choice(rq)[1]
            roles = [r for r in roles if r[0] != a] + [(a, rng.choice([None, True]), rng.choice([None, False]))]
        else:
            a = rng.choice(rq)[1]
            roles = [r for r in roles if r[0] != a] + [(a, None, None)]
    return rq, ac, roles, "+".join(kind) or "valid"


def wellformed(rq, roles):
    """the hypotheses of the theorems: distinct ids, >= 1 transfer syntax, bool role pairs"""
    return (
        len({c[0] for c in rq}) == len(rq)
        and all(c[2] for c in rq)
        and all(isinstance(u, bool) and isinstance(p, bool) for _, u, p in roles)
    )


def observed_storage_like():
    """How the real `negotiate_unrestricted` classifies each pool UID: a lone context with no
    supported contexts is accepted (0) iff the code treats it as storage-like, else rejected (3)."""
    out = []
    for a in range(len(ABS)):
        r = real_acceptor([(1, a, [0], None, None)], [], [], unrestricted=True)
        if r[0] == "ok" and r[1] and r[1][0][2] == 0:
            out.append(a)
    return out


# ---------------------------------------------------------------------------
# the documented role table (through the Lean transcription Spec.Roles, op `roles.doc`)
# ---------------------------------------------------------------------------
ITEMS = [None, (True, True), (True, False), (False, True), (False, False)]
CFGS = [(a, b) for a in ROLE3 for b in ROLE3]
ACCEPTOR_ROLES = {"default": (False, True), "inverted": (True, False), "both": (True, True), "rejected": (False, False)}
REQUESTOR_ROLES = {"default": (True, False), "inverted": (False, True), "both": (True, True), "rejected": (False, False)}


def documented_table(ctx):
    """{(item, cfg): outcome name} for all 5 x 9 combinations, from Spec.Roles.documented"""
    keys = [(it, cfg) for it in ITEMS for cfg in CFGS]
    rep = ctx.lean([["roles.doc", (list(it) if it else None), list(cfg)] for it, cfg in keys])
    return dict(zip(keys, rep))


# ---------------------------------------------------------------------------
# C10 oracle: each clause of the property on the real acceptor output
# ---------------------------------------------------------------------------
def fmt_case(rq, ac, roles, unrestricted):
    return {"rq": [list(c) for c in rq], "ac": [list(c) for c in ac], "roles": [list(r) for r in roles], "unrestricted": bool(unrestricted)}


def oracle_c10(rq, ac, roles, unrestricted, real, doc, misclassified=()):
    """Returns [(sig, what)] — clauses of C10 the real output violates.  Only for well-formed
    inputs (distinct ids, >= 1 transfer syntax, boolean role pairs)."""
    bad = []
    if real[0] != "ok":
        return [("raises-on-wellformed-input", f"negotiation raised {real[1]} on a well-formed proposal list")]
    _, res, items = real
    rmap = {a: (u, p) for a, u, p in roles}
    # -- exactly one result per proposed id, with the proposed abstract syntax
    if sorted((r[0], r[1]) for r in res) != sorted((c[0], c[1]) for c in rq):
        bad.append(("result-ids", "results are not exactly one per proposed context id with the proposed abstract syntax"))
        return bad
    by_id = {c[0]: c for c in rq}
    sup = {}
    for c in ac:
        sup.setdefault(c[1], []).append(c)
    for r in res:
        rid, a, result, ts, as_scu, as_scp = r
        p = by_id[rid]
        if unrestricted and a in misclassified:
            continue  # reported once by the classification oracle
        storage = unrestricted and a in STORAGE_LIKE
        item = rmap.get(a)
        if storage:
            # unrestricted storage: accepted with the first proposed syntax, roles as if configured (True, True)
            if result != 0 or ts != p[2][0]:
                bad.append(("unrestricted:storage-not-accepted-with-first-proposed-ts", f"storage-like context {rid} -> result {result} ts {ts}"))
            want = doc[(item, (True, True))]
            if item == (False, False):
                pass  # documented outcome is "rejected"; covered by the never-roleless clause below
            elif (as_scu, as_scp) != ACCEPTOR_ROLES[want]:
                if item is None:
                    bad.append(("unrestricted:storage-no-role:acceptor-also-scu", f"storage-like context {rid} proposed without role item: acceptor roles {(as_scu, as_scp)}, documented default is {ACCEPTOR_ROLES[want]}"))
                else:
                    bad.append((f"unrestricted:roles-table:rq={item}", f"storage-like context {rid}: acceptor roles {(as_scu, as_scp)} but the documented outcome for {item} vs (True, True) is {want}"))
        else:
            cands = sup.get(a, [])
            if (result == 3) != (not cands):
                bad.append(("reject-abs:mismatch", f"context {rid}: result {result} but abstract syntax supported = {bool(cands)}"))
                continue
            if not cands:
                continue
            if len(cands) > 1:
                # duplicate supported abstract syntaxes: PS3.8 does not say which wins; only the weak clauses
                if result == 0 and not any(ts in c[2] for c in cands) or result == 0 and ts not in p[2]:
                    bad.append(("accept-ts:not-proposed-or-supported", f"context {rid} accepted with ts {ts}"))
                continue
            c = cands[0]
            common = [t for t in c[2] if t in p[2]]
            if (result == 4) != (not common):
                bad.append(("reject-ts:mismatch", f"context {rid}: result {result} but common transfer syntaxes = {common}"))
                continue
            if not common:
                continue
            want = doc[(item, (c[3], c[4]))]
            if want == "rejected":
                if result == 0:
                    bad.append((f"roles-table:rq={item}:cfg={(c[3], c[4])}", f"context {rid} accepted with roles {(as_scu, as_scp)} but the documented outcome is 'rejected'"))
                elif result != 1:
                    bad.append(("role-rejection-result", f"context {rid}: role selection rejected but result is {result}, not 1"))
                continue
            if result != 0:
                bad.append((f"roles-table:rq={item}:cfg={(c[3], c[4])}", f"context {rid} rejected ({result}) but the documented outcome is {want}"))
                continue
            if ts not in common:
                bad.append(("accept-ts:not-proposed-or-supported", f"context {rid} accepted with ts {ts}, common = {common}"))
            elif ts != common[0]:
                bad.append(("accept-ts:not-first-preference", f"context {rid} accepted with ts {ts}, acceptor's first common preference is {common[0]}"))
            if (as_scu, as_scp) != ACCEPTOR_ROLES[want]:
                bad.append((f"roles-table:rq={item}:cfg={(c[3], c[4])}", f"context {rid}: acceptor roles {(as_scu, as_scp)}, documented outcome {want} = {ACCEPTOR_ROLES[want]}"))
        # -- never accepted with no usable role
        if result == 0 and not (as_scu is True or as_scp is True):
            if storage and item == (False, False):
                bad.append(("unrestricted:roles-false-false-accepted", f"storage-like context {rid} proposed with roles (False, False) accepted with as_scu = as_scp = False"))
            else:
                bad.append(("accepted-roleless", f"context {rid} accepted with roles {(as_scu, as_scp)}"))
    # -- never grants a role that was not proposed; items only for accepted contexts
    accepted_abs = {r[1] for r in res if r[2] == 0}
    for a, u, p in items:
        prop = rmap.get(a)
        if prop is None or (u and prop[0] is not True) or (p and prop[1] is not True):
            bad.append(("unproposed-role-granted", f"role item {(a, u, p)} answers proposal {prop}"))
        if a not in accepted_abs:
            bad.append(("role-item-for-unaccepted", f"role item for abstract syntax {a} which has no accepted context"))
    return bad


# ---------------------------------------------------------------------------
# C11: both sides on the real code, the wire being the real PDU codec
# ---------------------------------------------------------------------------
def sendable(rqroles):
    """role items a pynetdicom requestor can put on the wire (`from_primitive` refuses both-falsy)"""
    return all(u or p for _, u, p in rqroles)


def _through_wire(prim, cls):
    pdu = cls()
    pdu.from_primitive(prim)
    back = cls()
    back.decode(pdu.encode())
    return back.to_primitive()


def real_assoc_pdu(rq, rqroles, ac, unrestricted):
    """negotiate_* on both sides with the A-ASSOCIATE-RQ and -AC primitives carried through the real
    PDU encoder/decoder; the three lines of ACSE glue (role dicts, `or False`) are repeated here, the
    e2e runs exercise the real glue.  Returns (acceptor view, requestor view) or ['err', kind]."""
    from copy import deepcopy

    from pynetdicom import presentation as P
    from pynetdicom.pdu import A_ASSOCIATE_AC, A_ASSOCIATE_RQ
    from pynetdicom.pdu_primitives import (
        A_ASSOCIATE, ImplementationClassUIDNotification, MaximumLengthNotification, SCP_SCU_RoleSelectionNegotiation,
    )

    def base():
        p = A_ASSOCIATE()
        p.application_context_name = "1.2.840.10008.3.1.1.1"
        p.calling_ae_title = "REQ"
        p.called_ae_title = "ACC"
        m = MaximumLengthNotification()
        m.maximum_length_received = 16382
        i = ImplementationClassUIDNotification()
        i.implementation_class_uid = "1.2.826.0.1.3680043.9.3811.2.1.0"
        return p, [m, i]

    rq_cx = [mk_cx(c) for c in rq]
    p, ui = base()
    p.presentation_context_definition_list = deepcopy(rq_cx)
    items = []
    for a, u, s in rqroles:
        r = SCP_SCU_RoleSelectionNegotiation()
        r.sop_class_uid = ABS[a]
        r.scu_role, r.scp_role = u, s
        items.append(r)
    p.user_information = ui + items
    seen = _through_wire(p, A_ASSOCIATE_RQ)
    rq_roles = {it.sop_class_uid: (it.scu_role, it.scp_role) for it in seen.user_information if isinstance(it, SCP_SCU_RoleSelectionNegotiation)}
    f = P.negotiate_unrestricted if unrestricted else P.negotiate_as_acceptor
    try:
        result, ac_items = f(seen.presentation_context_definition_list, [mk_cx(c) for c in ac], rq_roles)
    except (IndexError, KeyError, ValueError) as e:
        return _err(e)
    acc_view = canon_acc_real(sorted(result, key=lambda c: c.context_id), [])[1]
    p2, ui2 = base()
    p2.result = 0
    p2.result_source = 1
    p2.presentation_context_definition_results_list = [c for c in result if c.result == 0] + [c for c in result if c.result != 0]
    p2.user_information = ui2 + list(ac_items)
    back = _through_wire(p2, A_ASSOCIATE_AC)
    own = {it.sop_class_uid: (it.scu_role, it.scp_role) for it in items}
    mine = deepcopy(rq_cx)
    if own:
        for cx in mine:
            try:
                cx.scu_role, cx.scp_role = own[cx.abstract_syntax]
                cx.scu_role = cx.scu_role or False
                cx.scp_role = cx.scp_role or False
            except KeyError:
                pass
    ac_roles = {it.sop_class_uid: (it.scu_role, it.scp_role) for it in back.user_information if isinstance(it, SCP_SCU_RoleSelectionNegotiation)}
    try:
        out = P.negotiate_as_requestor(mine, back.presentation_context_definition_results_list, ac_roles)
    except (IndexError, KeyError, ValueError) as e:
        return _err(e)
    return ["ok", acc_view, canon_req_real(out)[1]]


def canon_assoc_model(m):
    if m[0] != "ok":
        return m
    return ["ok", [[r[0], r[1], r[2], r[3], _b(r[4]), _b(r[5])] for r in m[1]], [[r[0], r[1], r[2], list(r[3]), _b(r[4]), _b(r[5])] for r in m[2]]]


def e2e_assoc(rq, rqroles, ac, unrestricted, timeout=10):
    """One real association: `AE.start_server` on 127.0.0.1:0 and `AE.associate` against it.
    rq ids must be 1, 3, 5, ... (AE.associate numbers them).  Returns ['ok', acceptor view, requestor view]."""
    import threading

    from pynetdicom import AE, _config, build_context, build_role, evt

    old = _config.UNRESTRICTED_STORAGE_SERVICE
    _config.UNRESTRICTED_STORAGE_SERVICE = unrestricted
    server = None
    try:
        srv = AE()
        srv.acse_timeout = srv.dimse_timeout = srv.network_timeout = timeout
        for _, a, ts, scu, scp in ac:
            srv.add_supported_context(ABS[a], [TS[t] for t in ts], scu_role=scu, scp_role=scp)
        got, done = {}, threading.Event()

        def on_accepted(event):
            assoc = event.assoc
            got["view"] = canon_acc_real(sorted(assoc.accepted_contexts + assoc.rejected_contexts, key=lambda c: c.context_id), [])[1]
            done.set()

        server = srv.start_server(("127.0.0.1", 0), block=False, evt_handlers=[(evt.EVT_ACCEPTED, on_accepted)])
        port = server.socket.getsockname()[1]
        cl = AE()
        cl.acse_timeout = cl.dimse_timeout = cl.network_timeout = timeout
        cl.connection_timeout = timeout
        cxs = [build_context(ABS[a], [TS[t] for t in ts]) for _, a, ts, _, _ in rq]
        ext = [build_role(ABS[a], scu_role=bool(u), scp_role=bool(p)) for a, u, p in rqroles]
        assoc = cl.associate("127.0.0.1", port, contexts=cxs, ext_neg=ext)
        if not done.wait(timeout):
            return ["err", "acceptor-never-accepted"]
        req_view = canon_req_real(sorted(assoc.accepted_contexts + assoc.rejected_contexts, key=lambda c: c.context_id))[1]
        if assoc.is_established:
            assoc.release()
        return ["ok", got["view"], req_view]
    finally:
        if server is not None:
            server.shutdown()
        _config.UNRESTRICTED_STORAGE_SERVICE = old


def oracle_c11(rq, rqroles, ac, unrestricted, acc_view, req_view, misclassified=()):
    """Clauses of C11 on the two real views."""
    bad = []
    ids = sorted(c[0] for c in rq)
    if sorted(q[0] for q in req_view) != ids:
        bad.append(("once", f"requestor holds ids {sorted(q[0] for q in req_view)}, proposed {ids}"))
    a_acc = sorted((r[0], r[1], r[3]) for r in acc_view if r[2] == 0)
    r_acc = sorted((q[0], q[1], q[3][0] if len(q[3]) == 1 else tuple(q[3])) for q in req_view if q[2] == 0)
    if a_acc != r_acc:
        bad.append(("same-accepted", f"acceptor accepted {a_acc}, requestor accepted {r_acc}"))
        return bad
    amap = {r[0]: r for r in acc_view}
    rmap = {a: (u, p) for a, u, p in rqroles}
    sup = {c[1]: c for c in ac}
    for q in req_view:
        if q[2] != 0:
            continue
        r = amap[q[0]]
        if (q[4], q[5]) == (r[5], r[4]):
            continue
        what = f"context {q[0]} (abstract {q[1]}): requestor (as_scu, as_scp) = {(q[4], q[5])}, acceptor = {(r[4], r[5])}"
        if unrestricted and q[1] in misclassified:
            continue
        if unrestricted and q[1] in STORAGE_LIKE and q[1] not in rmap:
            bad.append(("unrestricted:storage-no-role:not-complementary", what))
        elif unrestricted and q[1] not in STORAGE_LIKE and q[1] in rmap and q[1] in sup and None not in (sup[q[1]][3], sup[q[1]][4]):
            bad.append(("unrestricted:non-storage-role-reply-dropped", what))
        else:
            bad.append(("complementary", what))
    return bad


def gen_assoc_case(rng, nmax=12, e2e=False):
    """(rq, rqroles, ac, unrestricted, kind) for one association between two pynetdicom AEs: ids as
    AE.associate numbers them (1, 3, 5, ...), role items a pynetdicom requestor can send (not both
    falsy; a `None` half allowed at function level), supported contexts as AE.add_supported_context
    keeps them when `e2e` (distinct abstract syntaxes, roles both None or both bool)."""
    rq, ac, roles, _ = gen_case(rng, nmax)
    if not rq:
        rq = [(1, rng.randrange(len(ABS)), [0], None, None)]
    rq = [(2 * i + 1, c[1], c[2], None, None) for i, c in enumerate(rq)]
    vals = [True, False] if e2e else [True, False, None]
    rqroles = []
    for a, _, _ in roles:
        u, p = rng.choice(vals), rng.choice(vals)
        if not (u or p):
            u, p = (True, p) if rng.random() < 0.5 else (u, True)
        rqroles.append((a, u, p))
    if e2e:
        seen, ac2 = set(), []
        for c in ac:
            if c[1] in seen:
                continue
            seen.add(c[1])
            scu, scp = c[3], c[4]
            if None in (scu, scp):
                scu = scp = None
            ac2.append((None, c[1], c[2], scu, scp))
        ac = ac2
    unrestricted = rng.random() < 0.35
    kind = ("unr" if unrestricted else "normal") + (":roles" if rqroles else ":noroles")
    return rq, rqroles, ac, unrestricted, kind
