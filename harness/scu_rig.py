"""In-process rig that drives the REAL SCU calls of pynetdicom.association.Association
without sockets (C24; also used by harness/finality.py for C28).

A real `Association` (requestor, dummy AE) is marked established with hand-built accepted
presentation contexts; `assoc.dimse` is replaced by `Scripted`, whose `get_msg(block=True)`
returns the scripted `(context_id, primitive)` sequence built from real DIMSE primitives and
whose `send_msg` records; `assoc.abort` is replaced by a recorder.  Nothing in /repo is patched.

Peer message (harness form, JSON-able list):
    ["rsp", kind, valid, status, ident, variant]   kind in KINDS, ident in IDENTS
    ["storeRq", cx]                                cx in noClass | unaccepted | accepted
    ["none", why]                                  why in timeout | aAbort | apAbort | dead
`variant` only selects HOW an invalid response is invalid (0: no Status, 1: no
MessageIDBeingRespondedTo) and which undecodable byte string is used; the Lean form drops it.
"""
from __future__ import annotations

import logging
from io import BytesIO

KINDS = ["find", "get", "move", "store", "echo", "nAction", "nCreate", "nDelete", "nEventReport", "nGet", "nSet"]
IDENTS = ["absent", "empty", "good", "bad"]
MULTI = ["find", "findrq", "get", "move"]
SINGLE = ["echo", "store", "nDelete", "nAction", "nCreate", "nEventReport", "nGet", "nSet"]
# the attribute of each primitive class that carries its response data set
ATTR = {
    "find": "Identifier", "get": "Identifier", "move": "Identifier", "store": "DataSet", "echo": None,
    "nDelete": None, "nAction": "ActionReply", "nCreate": "AttributeList", "nGet": "AttributeList",
    "nSet": "AttributeList", "nEventReport": "EventReply",
}
BAD_BYTES = [
    b"\x08\x00\x40\x11\xff\xff\xff\xff\x01\x02\x03\x04\x05\x06\x07\x08",
    b"\x08\x00\x40\x11\xff\xff\xff\xff\xfe\xff\x00\xe0\x10\x00\x00\x00ab",
]

_state = {}


def setup():
    """Imports and constant objects (once)."""
    if _state:
        return _state
    from pydicom.dataset import Dataset, FileMetaDataset
    from pydicom.uid import ImplicitVRLittleEndian
    from pynetdicom import AE, build_context, evt, sop_class as sc
    from pynetdicom import dimse_primitives as dp
    from pynetdicom.association import Association
    from pynetdicom.dsutils import decode, encode
    from pynetdicom.pdu_primitives import A_ABORT, A_P_ABORT

    logging.getLogger("pynetdicom").setLevel(logging.CRITICAL + 10)
    ident = Dataset()
    ident.PatientName = "C24^Harness"
    ident.QueryRetrieveLevel = "PATIENT"
    good = encode(ident, True, True)
    assert good and len(decode(BytesIO(good), True, True)) == 2
    for b in BAD_BYTES:  # precondition of the "bad" symbol: the real decoder raises on it
        try:
            decode(BytesIO(b), True, True)
        except Exception:
            continue
        raise AssertionError("BAD_BYTES entry decodes")
    inst = Dataset()
    inst.SOPClassUID = sc.CTImageStorage
    inst.SOPInstanceUID = "1.2.826.0.1.3680043.8.498.1"
    inst.PatientName = "C24^Store"
    inst.file_meta = FileMetaDataset()
    inst.file_meta.TransferSyntaxUID = ImplicitVRLittleEndian
    classes = {
        "find": dp.C_FIND, "get": dp.C_GET, "move": dp.C_MOVE, "store": dp.C_STORE, "echo": dp.C_ECHO,
        "nAction": dp.N_ACTION, "nCreate": dp.N_CREATE, "nDelete": dp.N_DELETE,
        "nEventReport": dp.N_EVENT_REPORT, "nGet": dp.N_GET, "nSet": dp.N_SET,
    }
    contexts = [  # (context id, abstract syntax, as_scu, as_scp)
        (1, sc.PatientRootQueryRetrieveInformationModelFind, True, False),
        (3, sc.RepositoryQuery, True, False),
        (5, sc.PatientRootQueryRetrieveInformationModelGet, True, False),
        (7, sc.PatientRootQueryRetrieveInformationModelMove, True, False),
        (9, sc.CTImageStorage, True, True),
        (11, sc.Verification, True, False),
        (13, sc.BasicFilmSession, True, False),
    ]
    _state.update(
        Dataset=Dataset, AE=AE, Association=Association, build_context=build_context, evt=evt, sc=sc, dp=dp,
        A_ABORT=A_ABORT, A_P_ABORT=A_P_ABORT, ts=ImplicitVRLittleEndian, ident=ident, good=good, inst=inst,
        classes=classes, contexts=contexts, ae=None,
    )
    return _state


def set_syntax(deflated):
    """the transfer syntax of every accepted context of the rig, and the encoding of the `good` reply data set in it:
    Implicit VR Little Endian (default) or Deflated Explicit VR Little Endian"""
    S = setup()
    from pydicom.uid import DeflatedExplicitVRLittleEndian, ImplicitVRLittleEndian
    from pynetdicom.dsutils import encode

    if deflated:
        S["ts"] = DeflatedExplicitVRLittleEndian
        S["good"] = encode(S["ident"], False, True, True)
    else:
        S["ts"] = ImplicitVRLittleEndian
        S["good"] = encode(S["ident"], True, True)
    S["deflated"] = bool(deflated)


class Scripted:
    """Stand-in for DIMSEServiceProvider: scripted get_msg, recording send_msg."""

    def __init__(self, assoc, script):
        self.assoc = assoc
        self.script = list(script)
        self.pos = 0
        self.gets = 0
        self.sent = []
        self.cancel_req = {}
        self.dimse_timeout = None

    def get_msg(self, block=False):
        self.gets += 1
        S = _state
        if self.pos >= len(self.script):
            return None, None  # the peer is silent: DIMSE timeout
        m = self.script[self.pos]
        self.pos += 1
        if m[0] == "none":
            if m[1] == "aAbort":
                self.assoc.dul.to_user_queue.put(S["A_ABORT"]())
            elif m[1] == "apAbort":
                self.assoc.dul.to_user_queue.put(S["A_P_ABORT"]())
            elif m[1] == "dead":
                self.assoc.is_established = False
            return None, None
        return build_primitive(m)

    def send_msg(self, primitive, context_id):
        self.sent.append((context_id, primitive))


def build_primitive(m):
    """(context_id, primitive) for a scripted message, from the real primitive classes."""
    S = _state
    if m[0] == "storeRq":
        p = S["dp"].C_STORE()
        p.MessageID = 7
        p.Priority = 2
        p.AffectedSOPInstanceUID = "1.2.826.0.1.3680043.8.498.2"
        p.DataSet = BytesIO(S["good"])
        if m[1] == "accepted":
            p.AffectedSOPClassUID = S["sc"].CTImageStorage
        elif m[1] == "unaccepted":
            p.AffectedSOPClassUID = S["sc"].MRImageStorage
        p._context_id = 9
        return 9, p
    _, kind, valid, status, ident, variant = m
    p = S["classes"][kind]()
    if valid:
        p.MessageIDBeingRespondedTo = 1
        p.Status = status
    elif variant % 2 == 0:
        p.MessageIDBeingRespondedTo = 1
    else:
        p.Status = status
    attr = ATTR[kind]
    if attr is not None and ident != "absent":
        data = {"empty": b"", "good": S["good"], "bad": BAD_BYTES[(variant // 2) % len(BAD_BYTES)]}[ident]
        setattr(p, attr, BytesIO(data))
    cx = {"find": 1, "get": 5, "move": 7, "store": 9, "echo": 11}.get(kind, 13)
    if kind == "store":
        p.AffectedSOPClassUID = S["sc"].CTImageStorage
        p.AffectedSOPInstanceUID = "1.2.826.0.1.3680043.8.498.3"
    p._context_id = cx
    return cx, p


def lean_msg(m):
    if m[0] == "rsp":
        return ["rsp", m[1], bool(m[2]), m[3], m[4]]
    return list(m)


def new_assoc(script):
    S = setup()
    if S["ae"] is None:
        S["ae"] = S["AE"]()
    a = S["Association"](S["ae"], "requestor")
    a.is_established = True
    a._is_paused = True  # what the (not running) reactor would set once it reaches its checkpoint
    for cid, uid, scu, scp in S["contexts"]:
        cx = S["build_context"](uid, S["ts"])
        cx.context_id = cid
        cx.result = 0
        cx._as_scu = scu
        cx._as_scp = scp
        a._accepted_cx[cid] = cx
    a.dimse = Scripted(a, script)
    a._aborts = []
    a.abort = lambda *args, **kw: a._aborts.append(1)
    a.bind(S["evt"].EVT_C_STORE, lambda event: 0x0000)
    return a


def lock_held(assoc):
    lk = assoc.lock
    if lk.acquire(blocking=False):
        lk.release()
        return False
    return True


def canon_ds(ds):
    """none / empty / ds - and "garbled" for a non-empty data set that is not the one the scripted peer sent"""
    if ds is None:
        return "none"
    if not len(ds):
        return "empty"
    try:
        same = ds == _state["ident"]
    except Exception:  # noqa: BLE001
        same = False
    return "ds" if same else "garbled"


def canon_status(ds):
    return ds.Status if "Status" in ds else None


def start(assoc, svc, model=None):
    """Issue the request of a multi-response call; returns the generator."""
    S = _state
    sc = S["sc"]
    if model is not None:
        if svc in ("find", "findrq"):
            return assoc.send_c_find(S["ident"], model)
        if svc == "get":
            return assoc.send_c_get(S["ident"], model)
        return assoc.send_c_move(S["ident"], "DEST", model)
    if svc == "find":
        return assoc.send_c_find(S["ident"], sc.PatientRootQueryRetrieveInformationModelFind)
    if svc == "findrq":
        return assoc.send_c_find(S["ident"], sc.RepositoryQuery)
    if svc == "get":
        return assoc.send_c_get(S["ident"], sc.PatientRootQueryRetrieveInformationModelGet)
    if svc == "move":
        return assoc.send_c_move(S["ident"], "DEST", sc.PatientRootQueryRetrieveInformationModelMove)
    raise KeyError(svc)


def call_single(assoc, svc):
    S = _state
    uid = S["sc"].BasicFilmSession
    inst = "1.2.826.0.1.3680043.8.498.4"
    if svc == "echo":
        return assoc.send_c_echo()
    if svc == "store":
        return assoc.send_c_store(S["inst"])
    if svc == "nDelete":
        return assoc.send_n_delete(uid, inst)
    if svc == "nAction":
        return assoc.send_n_action(None, 1, uid, inst)
    if svc == "nCreate":
        return assoc.send_n_create(None, uid, inst)
    if svc == "nEventReport":
        return assoc.send_n_event_report(None, 1, uid, inst)
    if svc == "nGet":
        return assoc.send_n_get([0x00100010], uid, inst)
    if svc == "nSet":
        return assoc.send_n_set(S["ident"], uid, inst)
    raise KeyError(svc)


REQUEST_CLASS = {
    "find": "C_FIND", "findrq": "C_FIND", "get": "C_GET", "move": "C_MOVE", "echo": "C_ECHO", "store": "C_STORE",
    "nDelete": "N_DELETE", "nAction": "N_ACTION", "nCreate": "N_CREATE", "nEventReport": "N_EVENT_REPORT",
    "nGet": "N_GET", "nSet": "N_SET",
}


def run(svc, script, cancel_at=(), model=None):
    """Run one SCU call of the real code against a scripted peer.

    Returns a dict: yields [(status|None, ident, lockHeld, paused)], aborts, recvs, store_rsps,
    ckpt, lock, raised (repr or None), ret ((status|None, reply) or None), request_ok,
    paused_after_send, cancels_ok, overrun.
    `cancel_at`: indices of suspension points at which the harness also calls send_c_cancel
    (only while the operation is still going on, i.e. the reactor is still paused).
    """
    S = setup()
    a = new_assoc(script)
    if model is not None:
        # the query/retrieve information model of the request, accepted as context 21
        cx = S["build_context"](model, S["ts"])
        cx.context_id, cx.result, cx._as_scu, cx._as_scp = 21, 0, True, False
        a._accepted_cx[21] = cx
    out = dict(yields=[], raised=None, ret=None, overrun=False, cancels_ok=True, paused_after_send=None)
    kept = []  # the (status, identifier) objects as handed out, for the "still what it was" check at the end
    C_CANCEL = S["dp"].C_CANCEL
    try:
        if svc in MULTI:
            gen = start(a, svc, model)
            out["paused_after_send"] = not a._reactor_checkpoint.is_set()
            limit = 2 * len(script) + 3
            for i in range(limit + 1):
                try:
                    status, ident = next(gen)
                except StopIteration:
                    break
                if i == limit:
                    out["overrun"] = True
                    gen.close()
                    break
                out["yields"].append(
                    (canon_status(status), canon_ds(ident), lock_held(a), not a._reactor_checkpoint.is_set())
                )
                kept.append((status, ident))
                if i in cancel_at and out["yields"][-1][3]:  # operation still going on
                    n = len(a.dimse.sent)
                    a.send_c_cancel(1, a.dimse.sent[0][0])
                    new = a.dimse.sent[n:]
                    if not (len(new) == 1 and isinstance(new[0][1], C_CANCEL) and new[0][1].MessageIDBeingRespondedTo == 1):
                        out["cancels_ok"] = False
        else:
            r = call_single(a, svc)
            if isinstance(r, tuple):
                out["ret"] = (canon_status(r[0]), canon_ds(r[1]))
            else:
                out["ret"] = (canon_status(r), "none")
    except Exception as exc:  # an exception escaping an SCU call is itself an observation
        out["raised"] = f"{type(exc).__name__}: {exc}"
    sent = a.dimse.sent
    out["request_ok"] = bool(sent) and type(sent[0][1]).__name__ == REQUEST_CLASS[svc]
    out["aborts"] = len(a._aborts)
    out["recvs"] = a.dimse.gets
    out["store_rsps"] = [p.Status for _, p in sent[1:] if type(p).__name__ == "C_STORE"]
    out["other_sent"] = [type(p).__name__ for _, p in sent[1:] if type(p).__name__ not in ("C_STORE", "C_CANCEL")]
    # a caller may keep what it was given (list(assoc.send_c_get(...))): every response must still be what it was when
    # it was handed out, and two responses are never the same object
    out["kept_changed"] = [i for i, ((st, idt), y) in enumerate(zip(kept, out["yields"])) if (canon_status(st), canon_ds(idt)) != (y[0], y[1])]
    ids = [id(st) for st, _ in kept if st is not None]
    out["kept_aliased"] = len(ids) != len(set(ids))
    out["ckpt"] = a._reactor_checkpoint.is_set()
    out["lock"] = lock_held(a)
    out["consumed"] = a.dimse.pos
    return out


def summary(out):
    """The same shape as Driver.summary on the Lean side."""
    return [
        [[s, i, bool(l), bool(p)] for s, i, l, p in out["yields"]],
        out["aborts"],
        out["recvs"],
        list(out["store_rsps"]),
        bool(out["ckpt"]),
        bool(out["lock"]),
        out["raised"] is not None,
        None if out["ret"] is None else [out["ret"][0], out["ret"][1]],
    ]


def canon_lean(reply):
    """Normalise a parsed Lean summary: symbols T/F/none -> Python values."""

    def b(x):
        return {"T": True, "F": False}.get(x, x)

    def n(x):
        return None if x == "none" else x

    ys, ab, rc, st, ck, lk, ra, ret = reply
    return [
        [[n(y[0]), y[1], b(y[2]), b(y[3])] for y in ys],
        ab, rc, list(st), b(ck), b(lk), b(ra),
        None if ret == "none" else [n(ret[0]), ret[1]],
    ]
